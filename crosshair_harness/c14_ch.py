"""CrossHair harness for C14: the real generate_sub_moved_events / generate_sub_created_events on
symbolic strings.  Tree shape (fixed): TOP/d/ (directory), TOP/g (file), TOP/d/f (file); the names and
the source/destination directory paths are symbolic strings over the alphabet {a, b, /}.
Run with:  crosshair check --report_all --per_condition_timeout T c14_ch.py
"""
import os
from unittest import mock

from watchdog.events import (DirCreatedEvent, DirMovedEvent, FileCreatedEvent, FileMovedEvent,
                             generate_sub_created_events, generate_sub_moved_events)


ND = int(os.environ.get("C14_NDIR", "2"))   # max length of the directory paths
NN = int(os.environ.get("C14_NNAME", "1"))  # max length of the file names (the sub-directory name may be one longer)


def _walk_of(d, g, f):
    def walk(top, *a, **k):
        yield top, [d], [g]
        yield os.path.join(top, d), [], [f]
    return walk


def _valid_dir(p: str, n: int) -> bool:
    return 1 <= len(p) <= n and all(c in "ab/" for c in p) and not p.endswith("/") and "//" not in p


def _valid_name(p: str, n: int) -> bool:
    return 1 <= len(p) <= n and all(c in "ab" for c in p)


def moved_ok(src: str, dest: str, d: str, g: str, f: str) -> bool:
    """
    pre: _valid_dir(src, ND) and _valid_dir(dest, ND)
    pre: _valid_name(d, NN + 1) and _valid_name(g, NN) and _valid_name(f, NN) and d != g
    post: _
    """
    with mock.patch("os.walk", _walk_of(d, g, f)):
        evs = list(generate_sub_moved_events(src, dest))
    want = [
        DirMovedEvent(os.path.join(src, d), os.path.join(dest, d), is_synthetic=True),
        FileMovedEvent(os.path.join(src, g), os.path.join(dest, g), is_synthetic=True),
        FileMovedEvent(os.path.join(src, d, f), os.path.join(dest, d, f), is_synthetic=True),
    ]
    return evs == want


def created_ok(top: str, d: str, g: str, f: str) -> bool:
    """
    pre: _valid_dir(top, ND)
    pre: _valid_name(d, NN + 1) and _valid_name(g, NN) and _valid_name(f, NN) and d != g
    post: _
    """
    with mock.patch("os.walk", _walk_of(d, g, f)):
        evs = list(generate_sub_created_events(top))
    want = [
        DirCreatedEvent(os.path.join(top, d), is_synthetic=True),
        FileCreatedEvent(os.path.join(top, g), is_synthetic=True),
        FileCreatedEvent(os.path.join(top, d, f), is_synthetic=True),
    ]
    return evs == want


def moved_reachable(src: str, dest: str, d: str, g: str, f: str) -> bool:
    """
    reachability twin: must be REFUTED (otherwise the preconditions are vacuous)
    pre: _valid_dir(src, ND) and _valid_dir(dest, ND)
    pre: _valid_name(d, NN + 1) and _valid_name(g, NN) and _valid_name(f, NN) and d != g
    post: not _
    """
    with mock.patch("os.walk", _walk_of(d, g, f)):
        evs = list(generate_sub_moved_events(src, dest))
    return len(evs) == 3
