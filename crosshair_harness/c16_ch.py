"""CrossHair harness for C16 (sequential part): the real SkipRepeatsQueue against a reference model on
symbolic put/get sequences, and the equality/hash law of FileSystemEvent on symbolic field values."""
import os
import queue
from collections import deque
from typing import List, Tuple

import watchdog.events as E
from watchdog.utils.bricks import SkipRepeatsQueue

NOPS = int(os.environ.get("C16_NOPS", "4"))
NS = int(os.environ.get("C16_NS", "1"))
CLASSES = [E.FileSystemEvent, E.FileSystemMovedEvent, E.FileDeletedEvent, E.FileModifiedEvent, E.FileCreatedEvent,
           E.FileMovedEvent, E.FileClosedEvent, E.FileClosedNoWriteEvent, E.FileOpenedEvent, E.DirDeletedEvent,
           E.DirModifiedEvent, E.DirCreatedEvent, E.DirMovedEvent]


def queue_matches_model(ops: List[Tuple[bool, int]]) -> bool:
    """
    pre: len(ops) <= NOPS
    pre: all(0 <= v <= 2 for _, v in ops)
    post: _
    """
    q = SkipRepeatsQueue()
    model = deque()
    for is_put, v in ops:
        if is_put:
            item = ("item", v)
            q.put(item)
            # reference: dropped iff equal to the item enqueued immediately before it while that one still waits
            if not (model and model[-1] == item):
                model.append(item)
        else:
            try:
                got = q.get_nowait()
            except queue.Empty:
                got = None
            want = model.popleft() if model else None
            if got != want:
                return False
    return q.qsize() == len(model)


def queue_reachable(ops: List[Tuple[bool, int]]) -> bool:
    """
    reachability twin: must be REFUTED
    pre: len(ops) <= NOPS
    pre: all(0 <= v <= 2 for _, v in ops)
    post: not _
    """
    q = SkipRepeatsQueue()
    n = 0
    for is_put, v in ops:
        if is_put:
            q.put(("item", v))
            n += 1
    return n >= 2 and q.qsize() == 1


def event_equality_law(c1: int, c2: int, s1: str, d1: str, y1: bool, s2: str, d2: str, y2: bool) -> bool:
    """
    two events are equal only if they have the same class and the same field values; equal => equal hash
    pre: 0 <= c1 < 13 and 0 <= c2 < 13
    pre: len(s1) <= NS and len(s2) <= NS and len(d1) <= 1 and len(d2) <= 1
    post: _
    """
    e1 = CLASSES[c1](s1, d1, is_synthetic=y1)
    e2 = CLASSES[c2](s2, d2, is_synthetic=y2)
    same = (c1 == c2) and s1 == s2 and d1 == d2 and y1 == y2
    if (e1 == e2) != same:
        return False
    if (e1 != e2) != (not same):
        return False
    if same and hash(e1) != hash(e2):
        return False
    return True
