"""SBVM: state-merging symbolic interpreter for CPython 3.12 bytecode (Engine A core).

The VM executes the code objects CPython compiled from the real sources.  States are
(guard, frame stack); the heap is global with guarded writes; states that reach the same
control location are merged; the work list is processed in topological order of the
unrolled control-flow graph (DESIGN.md section 3 and Appendix A).
"""
from __future__ import annotations

import dis
import sys
from fractions import Fraction
import types
import z3

from .bexp import B, TRUE, FALSE, AND, OR, NOT, ITE, to_z3, fresh, const, atom
from . import bexp
from .values import *  # noqa: F401,F403
from .values import (Sym, Union, VObj, VInst, VList, VDict, VSet, VCell, VFunc, VMethod, VBuiltinMethod, VIter,
                     VGen, VSuper, VModel, SlotRef, NULL, UNDEF, Unsupported, merge, mk_union, alts_of, truth,
                     sym_bool, is_concrete)

if sys.version_info[:2] != (3, 12):
    raise Unsupported("the bytecode semantics are those of CPython 3.12; refusing to guess for another version")

CO_VARARGS, CO_VARKEYWORDS, CO_GENERATOR = 0x04, 0x08, 0x20


class VMRaise(Exception):
    """raised by op implementations: the whole current state raises `exc`"""

    def __init__(self, exc):
        self.exc = exc


class Park(Exception):
    """raised by a model when the current state must stop at a scheduling point (Engine B)"""

    def __init__(self, info=None):
        self.info = info


# --------------------------------------------------------------------------- code analysis

_JABS = {"JUMP_FORWARD", "JUMP_BACKWARD", "JUMP_BACKWARD_NO_INTERRUPT"}
_NOFALL = _JABS | {"RETURN_VALUE", "RETURN_CONST", "RAISE_VARARGS", "RERAISE"}


class CodeInfo:
    cache: dict = {}

    def __init__(self, code):
        self.code = code
        self.instrs = list(dis.get_instructions(code))
        self.off2idx = {ins.offset: i for i, ins in enumerate(self.instrs)}
        n = 0
        names = []
        while True:
            try:
                names.append(code._varname_from_oparg(n))
            except IndexError:
                break
            n += 1
        self.localnames = names
        self.nlocalsplus = n
        self.extable = []
        for e in dis._parse_exception_table(code):
            self.extable.append((e.start, e.end, self.off2idx[e.target], e.depth, e.lasti))
        self.jt = [None] * len(self.instrs)
        for i, ins in enumerate(self.instrs):
            if ins.opcode in dis.hasjrel or ins.opcode in dis.hasjabs:
                self.jt[i] = self.off2idx[ins.argval]
        self.leaders = {0}
        for i, ins in enumerate(self.instrs):
            if ins.is_jump_target:
                self.leaders.add(i)
        for e in self.extable:
            self.leaders.add(e[2])
        self._loopvec_cache = {}
        self._find_loops()
        self.for_header = {}
        for i, ins in enumerate(self.instrs):
            if ins.opname == "FOR_ITER":
                j = i
                while j > 0 and self.instrs[j - 1].opname == "EXTENDED_ARG":
                    j -= 1
                self.for_header[i] = j
        self.plain = [i for i in range(code.co_nlocals) if names[i] not in code.co_cellvars]
        self.live = self._liveness()
        self.is_gen = bool(code.co_flags & CO_GENERATOR)

    @classmethod
    def of(cls, code):
        ci = cls.cache.get(code)
        if ci is None:
            ci = cls.cache[code] = CodeInfo(code)
        return ci

    def _succs(self):
        n = len(self.instrs)
        succ = [[] for _ in range(n)]
        for i, ins in enumerate(self.instrs):
            op = ins.opname
            if op not in _NOFALL and i + 1 < n:
                succ[i].append(i + 1)
            if self.jt[i] is not None:
                if op == "FOR_ITER":
                    if self.jt[i] + 1 < n:
                        succ[i].append(self.jt[i] + 1)
                else:
                    succ[i].append(self.jt[i])
            h = self.handler(i)
            if h is not None:
                succ[i].append(h[0])
        return succ

    def _find_loops(self):
        """natural loops (back edge b->h with h dominating b); handler blocks that jump back into a loop body
        belong to that loop, and jumps from a handler to its continuation are not loops"""
        n = len(self.instrs)
        succ = self._succs()
        pred = [[] for _ in range(n)]
        for i in range(n):
            for j in succ[i]:
                pred[j].append(i)
        full = (1 << n) - 1
        dom = [full] * n
        dom[0] = 1
        changed = True
        order = list(range(n))
        while changed:
            changed = False
            for i in order[1:]:
                if not pred[i]:
                    continue
                d = full
                for p in pred[i]:
                    d &= dom[p]
                d |= (1 << i)
                if d != dom[i]:
                    dom[i] = d
                    changed = True
        bodies = {}
        for b in range(n):
            for h in succ[b]:
                if h <= b and (dom[b] >> h) & 1:
                    body = bodies.setdefault(h, set([h]))
                    stack = [b]
                    while stack:
                        x = stack.pop()
                        if x in body:
                            continue
                        body.add(x)
                        stack.extend(pred[x])
        self.loop_bodies = bodies
        self.loops = sorted(bodies.items(), key=lambda kv: (-len(kv[1]), kv[0]))

    def enclosing(self, pc):
        v = self._loopvec_cache.get(pc)
        if v is None:
            v = self._loopvec_cache[pc] = tuple(h for h, body in self.loops if pc in body)
        return v

    def handler(self, pc):
        off = self.instrs[pc].offset
        for start, end, tgt, depth, lasti in self.extable:
            if start <= off < end:
                return tgt, depth, lasti
        return None

    def _liveness(self):
        n = len(self.instrs)
        plain = set(self.plain)
        use = [set() for _ in range(n)]
        dfn = [set() for _ in range(n)]
        succ = [[] for _ in range(n)]
        for i, ins in enumerate(self.instrs):
            op = ins.opname
            if op in ("LOAD_FAST", "LOAD_FAST_CHECK", "LOAD_FAST_AND_CLEAR", "DELETE_FAST"):
                if ins.arg in plain:
                    use[i].add(ins.arg)
            elif op == "STORE_FAST":
                if ins.arg in plain:
                    dfn[i].add(ins.arg)
            if op not in _NOFALL and i + 1 < n:
                succ[i].append(i + 1)
            if self.jt[i] is not None:
                succ[i].append(self.jt[i])
                if op == "FOR_ITER" and self.jt[i] + 1 < n:
                    succ[i].append(self.jt[i] + 1)
            h = self.handler(i)
            if h is not None:
                succ[i].append(h[0])
        live = [frozenset()] * n
        changed = True
        while changed:
            changed = False
            for i in range(n - 1, -1, -1):
                out = set()
                for j in succ[i]:
                    out |= live[j]
                new = frozenset(use[i] | (out - dfn[i]))
                if new != live[i]:
                    live[i] = new
                    changed = True
        return live


# --------------------------------------------------------------------------- frames and states


class Frame:
    __slots__ = ("ci", "pc", "locals", "stack", "func", "counts", "on_return", "gen", "resume_kind", "kwnames",
                 "phase", "aux")

    def __init__(self, ci, func, locals_, on_return=("push",)):
        self.ci = ci
        self.pc = 0
        self.locals = locals_
        self.stack = []
        self.func = func
        self.counts = {}
        self.on_return = on_return
        self.gen = None
        self.resume_kind = None
        self.kwnames = None
        self.phase = 0
        self.aux = None

    def copy(self):
        f = Frame.__new__(Frame)
        f.ci = self.ci
        f.pc = self.pc
        f.locals = list(self.locals)
        f.stack = list(self.stack)
        f.func = self.func
        f.counts = dict(self.counts)
        f.on_return = self.on_return
        f.gen = self.gen
        f.resume_kind = self.resume_kind
        f.kwnames = self.kwnames
        f.phase = self.phase
        f.aux = self.aux
        return f

    def prio(self):
        v = []
        for h in self.ci.enclosing(self.pc):
            v.append(h)
            v.append(self.counts.get(h, 0))
        v.append(self.pc)
        v.append(self.phase)
        return v

    def __repr__(self):
        ins = self.ci.instrs[self.pc] if self.pc < len(self.ci.instrs) else None
        return f"<Frame {self.ci.code.co_qualname}@{self.pc}:{ins.opname if ins else '?'} L{ins.positions.lineno if ins and ins.positions else '?'}>"


class State:
    __slots__ = ("guard", "frames", "cur_exc", "tid", "status", "result", "prio", "held", "park", "cg", "orig",
                 "resume", "nst")

    def __init__(self, guard, frames, tid=0):
        self.guard = guard
        self.frames = frames
        self.cur_exc = None
        self.tid = tid
        self.status = "run"  # run | done | raised | parked
        self.result = None
        self.prio = None
        self.held = ()
        self.park = None
        self.cg = TRUE  # context guard: alternative currently being processed by a lifted operation
        # fork bookkeeping: stack of (guard before the fork, share of that fork this state still represents);
        # when sibling pieces re-merge to a full share the guard is restored exactly (no formula growth)
        self.orig = ()
        self.resume = False  # Engine B: the parked operation is to be performed now
        self.nst = 0         # Engine B: number of threads this thread has started on this path (upper bound after merges)

    def copy(self, guard=None):
        s = State(self.guard if guard is None else guard, [f.copy() for f in self.frames], self.tid)
        s.cur_exc = self.cur_exc
        s.held = self.held
        s.orig = self.orig
        s.park = self.park
        s.resume = self.resume
        s.nst = self.nst
        return s

    def key(self):
        k = tuple((id(f.ci), f.pc, f.phase) for f in self.frames)
        if self.status != "run":
            k = k + (self.status, park_key(self.park))
        return k

    def compute_prio(self):
        v = []
        for f in self.frames:
            v.extend(f.prio())
        self.prio = v
        return v

    @property
    def top(self):
        return self.frames[-1]

    def where(self):
        return " <- ".join(repr(f) for f in reversed(self.frames[-4:]))


_fork_ids = __import__("itertools").count(1)


def mark_fork(guard_before, pieces):
    """record that `pieces` together are exactly the state whose guard was guard_before"""
    top = (guard_before, Fraction(1, len(pieces)), next(_fork_ids))
    base = pieces[0].orig
    for p in pieces:
        p.orig = base + (top,)


def park_key(info):
    if info is None:
        return None
    return tuple(id(x) if isinstance(x, VObj) else x for x in info if not isinstance(x, (Sym, Union)))


def same_value(a, b):
    if a is b:
        return True
    ta = type(a)
    if ta is not type(b):
        return False
    if ta in (int, str, bytes, bool, float):
        return a == b
    if ta is VIter:
        if a.i != b.i:
            return False
        if a.seq is b.seq:
            return True
        if a.src is b.src and len(a.seq) == len(b.seq):
            sa, sb = a.seq, b.seq
            for k in range(a.i, len(sa)):
                if sa[k][0] is not sb[k][0] or sa[k][1] is not sb[k][1]:
                    return False
            return True
        return False
    if ta is SlotRef:
        return a.lst is b.lst and a.j == b.j and a.before == b.before
    if ta is VMethod:
        return a.func is b.func and a.self is b.self
    if ta is VBuiltinMethod:
        return a.obj is b.obj and a.name == b.name
    if ta is VSuper:
        return a.cls is b.cls and a.obj is b.obj
    if ta is tuple and len(a) == len(b) and len(a) <= 8:
        return all(same_value(x, y) for x, y in zip(a, b))
    return False


def vmerge(g, a, b):
    if same_value(a, b):
        return a
    return merge(g, a, b)


def merge_frames(g, fa: Frame, fb: Frame):
    """fa where g, fb elsewhere (same ci/pc/phase).  Mutates and returns fa."""
    live = fa.ci.live[fa.pc] if fa.pc < len(fa.ci.live) else None
    la, lb = fa.locals, fb.locals
    plain = fa.ci.plain
    if live is not None:
        for i in plain:
            if i not in live:
                la[i] = NULL
                lb[i] = NULL
    for i in range(len(la)):
        if la[i] is not lb[i]:
            la[i] = vmerge(g, la[i], lb[i])
    sa, sb = fa.stack, fb.stack
    if len(sa) != len(sb):
        raise Unsupported(f"stack depth mismatch at merge {fa!r}: {len(sa)} vs {len(sb)}")
    for i in range(len(sa)):
        if sa[i] is not sb[i]:
            sa[i] = vmerge(g, sa[i], sb[i])
    for h, c in fb.counts.items():
        if fa.counts.get(h, 0) < c:
            fa.counts[h] = c
    if fa.func is not fb.func:
        fa.func = vmerge(g, fa.func, fb.func)
    if fa.on_return is not fb.on_return and fa.on_return != fb.on_return:
        if fa.on_return[0] == fb.on_return[0] == "init":
            fa.on_return = ("init", vmerge(g, fa.on_return[1], fb.on_return[1]))
        else:
            raise Unsupported(f"on_return mismatch at merge {fa.on_return} {fb.on_return}")
    if fa.gen is not fb.gen:
        fa.gen = vmerge(g, fa.gen, fb.gen)
    if fa.aux is not fb.aux:
        fa.aux = vmerge(g, fa.aux, fb.aux)
    if fa.kwnames != fb.kwnames:
        raise Unsupported("kwnames mismatch at merge")
    return fa


class ModelEval:
    """a satisfying assignment of the current assumptions, used as a cheap feasibility witness"""

    def __init__(self, model, nassum):
        self.model = model
        self.cache = {}
        self.nassum = nassum

    def holds(self, g):
        cache = self.cache
        hit = cache.get(g.id)
        if hit is not None:
            return hit
        stack = [g]
        model = self.model
        while stack:
            n = stack[-1]
            if n.id in cache:
                stack.pop()
                continue
            k = n.kind
            if k == "T":
                cache[n.id] = True
            elif k == "F":
                cache[n.id] = False
            elif k == "v":
                if n.defn is not None:
                    if n.defn.id not in cache:
                        stack.append(n.defn)
                        continue
                    cache[n.id] = cache[n.defn.id]
                else:
                    z = z3.Bool(n.payload) if isinstance(n.payload, str) else n.payload
                    cache[n.id] = bool(z3.is_true(model.eval(z, model_completion=True)))
            else:
                pend = [a for a in n.args if a.id not in cache]
                if pend:
                    stack.extend(pend)
                    continue
                if k == "n":
                    cache[n.id] = not cache[n.args[0].id]
                elif k == "a":
                    cache[n.id] = all(cache[a.id] for a in n.args)
                else:
                    cache[n.id] = any(cache[a.id] for a in n.args)
            stack.pop()
        return cache[g.id]


# --------------------------------------------------------------------------- the machine

_MAY_PARK = {"CALL", "CALL_FUNCTION_EX", "BEFORE_WITH", "WITH_EXCEPT_START", "LOAD_ATTR", "STORE_ATTR", "FOR_ITER",
             "BINARY_SUBSCR", "STORE_SUBSCR", "DELETE_SUBSCR", "CONTAINS_OP", "GET_ITER", "LOAD_SUPER_ATTR"}
JUMPED = object()
from .values import MISSING  # noqa: E402
_ATOM_TYPES = (int, str, bytes, bool, float, type(None), complex)


def static_lookup(cls, name):
    for k in cls.__mro__:
        d = k.__dict__
        if name in d:
            return d[name]
    return MISSING


class VM:
    def __init__(self, encode=("watchdog",), use_solver=True):
        self.encode = tuple(encode)
        self.models = {}  # id(obj) -> (obj, handler)
        self.native_classes = set()
        self.assumptions = []  # list[B]
        self.obligations = []  # (B, label, info)
        self.unsupported = []  # (B, message, where)
        self.uncaught = []  # (B, exc, where)
        self.use_solver = use_solver
        self.prune_branches = use_solver
        self.solver = z3.Solver()
        self.solver.set("timeout", 20000)
        self.feas = {}
        self.ninstr = 0
        self.nmerge = 0
        self.nstates = 0
        self.nsolver = 0
        self.solver_time = 0.0
        self.vfuncs = {}
        self.vcells = {}
        self.trace = False
        self.max_depth = 60
        self.loop_bound = 2000
        self.forks = []
        self.landed = False
        self.lost = False
        self.root_guard = TRUE
        self.choice_groups = []
        self.symvars = {}  # name -> description for model extraction
        self.funcs_encoded = {}  # qualname -> code object (for evidence)
        self.tid = 0
        self.park_hook = None
        self.defs = []  # definitional constraints (B var, B formula)
        self.model_methods = {}
        self.model_attrs = {}
        self.profile = None
        self.model_pool = []
        self.npool_hits = 0
        self.nrestored = 0
        self.check_restore = bool(__import__('os').environ.get('VF_CHECK_RESTORE'))
        self.named = {}
        self.pending_defs = []
        self.name_threshold = int(__import__('os').environ.get('VF_STATE_T', '48'))
        self.access_log = None  # Engine B: list of field accesses for the lockset analysis
        bexp.namer = self.name_guard
        from . import natives
        natives.install(self)

    # ------------------------------------------------------------------ solver helpers
    def assume(self, b: B):
        if b is TRUE:
            return
        self.assumptions.append(b)
        self.solver.add(to_z3(b))
        # models found before this assumption stay usable only if they satisfy it
        self.model_pool = [m for m in self.model_pool if m.holds(b)]

    def name_guard(self, g: B) -> B:
        """replace a large guard by a definitional variable (Tseitin-style), keeping queries small"""
        hit = self.named.get(g.id)
        if hit is not None:
            return hit[0]
        v = fresh("d")
        v.defn = g
        self.pending_defs.append((v, g))
        self.named[g.id] = (v, g)
        self.defs.append((v, g))
        return v

    def flush_defs(self):
        """hand the definitions of named guards to the solver (deferred: conversion to z3 is batched)"""
        if self.pending_defs:
            pend, self.pending_defs = self.pending_defs, []
            for v, g in pend:
                self.solver.add(to_z3(v) == to_z3(g))

    def feasible(self, g: B) -> bool:
        if g is FALSE:
            return False
        if g is TRUE:
            return True
        if not self.use_solver:
            return True
        hit = self.feas.get(g.id)
        if hit is not None:
            return hit[0]
        self.flush_defs()
        for m in self.model_pool:
            if m.holds(g):
                self.feas[g.id] = (True, g)
                self.npool_hits += 1
                return True
        import time as _t
        t0 = _t.time()
        self.solver.push()
        self.solver.add(to_z3(g))
        r = self.solver.check()
        self.nsolver += 1
        if self.profile is not None:
            import sys as _s
            fr = _s._getframe(1)
            k = fr.f_code.co_name + ":" + str(fr.f_lineno)
            self.profile[k] = self.profile.get(k, 0) + 1
        self.solver_time += _t.time() - t0
        ok = r != z3.unsat
        if r == z3.sat:
            self.model_pool.insert(0, ModelEval(self.solver.model(), len(self.assumptions)))
            del self.model_pool[6:]
        self.solver.pop()
        self.feas[g.id] = (ok, g)
        return ok

    def is_encoded_module(self, modname):
        if not modname:
            return False
        for p in self.encode:
            if modname == p or modname.startswith(p + "."):
                return True
        return False

    def register_model(self, obj, handler):
        self.models[id(obj)] = (obj, handler)

    def model_for(self, obj):
        hit = self.models.get(id(obj))
        if hit is not None and hit[0] is obj:
            return hit[1]
        return None

    def unsupported_alt(self, s, exc):
        """an alternative of a lifted operation hit an unsupported construct: if it is provably infeasible it is
        skipped; otherwise it becomes an obligation of its own (must be unsat) and only that alternative is dropped"""
        g = AND(s.guard, s.cg)
        if g is FALSE:
            return
        if self.use_solver:
            if self.feasible(g):
                raise exc
            return
        self.unsupported.append((g, str(exc)[:300], s.where()))

    def note_access(self, s, obj, name, is_write):
        if self.access_log is not None:
            self.access_log.append((s.tid, obj, name, is_write, s.held))

    # ------------------------------------------------------------------ wrapping real functions
    def vfunc_of(self, pyfunc) -> VFunc:
        vf = self.vfuncs.get(id(pyfunc))
        if vf is not None and vf.pyfunc is pyfunc:
            return vf
        closure = ()
        if pyfunc.__closure__:
            cells = []
            for c in pyfunc.__closure__:
                vc = self.vcells.get(id(c))
                if vc is None or vc[0] is not c:
                    try:
                        content = self.wrap_native(c.cell_contents)
                    except ValueError:
                        content = NULL
                    vc = (c, VCell(content))
                    self.vcells[id(c)] = vc
                cells.append(vc[1])
            closure = tuple(cells)
        vf = VFunc(pyfunc.__code__, pyfunc.__globals__, pyfunc.__defaults__ or (), pyfunc.__kwdefaults__,
                   closure, pyfunc.__name__, pyfunc)
        self.vfuncs[id(pyfunc)] = vf
        return vf

    def wrap_native(self, v):
        """convert a value produced by native code into VM representation"""
        t = type(v)
        if t in _ATOM_TYPES:
            return v
        if t is list:
            return VList([self.wrap_native(x) for x in v])
        if t is tuple:
            if all(type(x) in _ATOM_TYPES for x in v):
                return v
            return tuple(self.wrap_native(x) for x in v)
        if t is dict:
            d = VDict()
            for k, x in v.items():
                d.slots[k] = [TRUE, self.wrap_native(x)]
            return d
        if t is set:
            st = VSet()
            for k in v:
                st.slots[k] = TRUE
            return st
        if isinstance(v, types.GeneratorType) or t.__name__ in ("map", "filter", "zip", "enumerate", "reversed",
                                                                 "list_iterator", "tuple_iterator",
                                                                 "dict_keyiterator", "dict_valueiterator",
                                                                 "dict_itemiterator", "set_iterator", "dict_keys",
                                                                 "dict_values", "dict_items", "ScandirIterator"):
            return VList([self.wrap_native(x) for x in v])
        return v

    # ------------------------------------------------------------------ running
    def new_state(self, fn, args=(), kwargs=None, guard=TRUE, tid=0):
        if not isinstance(fn, VFunc):
            fn = self.vfunc_of(fn)
        fr = self.make_frame(fn, list(args), kwargs or {}, ("push",))
        s = State(guard, [fr], tid)
        return s

    def run(self, states, root_guard=TRUE):
        """run to completion (or parking); returns the list of terminated/parked states"""
        pending = {}
        out = []
        self.root_guard = root_guard
        self.lost = False
        for s in states:
            self._insert(pending, s, out)
        while pending:
            key = min(pending, key=lambda k: pending[k].prio)
            s = pending.pop(key)
            if not pending and not self.lost and s.guard is not self.root_guard:
                s.guard = self.root_guard
                s.orig = ()
            try:
                succ = self.step_block(s)
            except Unsupported as e:
                self.unsupported.append((s.guard, str(e)[:300], s.where()))
                self.lost = True
                if self.trace:
                    print("UNSUPPORTED", e, s.where())
                continue
            for s2 in succ:
                self._insert(pending, s2, out)
        return out

    def run_nested(self, states, root_guard):
        """run a separate work list while another run() is in progress (saves and restores its bookkeeping)"""
        saved = (self.root_guard, self.lost, self.forks, self.landed, getattr(self, "cur", None))
        try:
            return self.run(states, root_guard)
        finally:
            self.root_guard, self.lost, self.forks, self.landed, self.cur = saved

    def _insert(self, pending, s, out):
        if s.guard is FALSE:
            return
        if s.status != "run":
            self.lost = True
            out.append(s)
            return
        k = s.key()
        other = pending.get(k)
        if other is None:
            s.compute_prio()
            pending[k] = s
            self.nstates += 1
            return
        # merge s into other
        self.nmerge += 1
        g = s.guard
        for fa, fb in zip(s.frames, other.frames):
            merge_frames(g, fa, fb)
        s.cur_exc = vmerge(g, s.cur_exc, other.cur_exc)
        if s.held != other.held:
            s.held = tuple(h for h in s.held if h in other.held)
        if other.nst > s.nst:
            s.nst = other.nst
        restored = False
        if s.orig and other.orig and len(s.orig) == len(other.orig) and s.orig[-1][2] == other.orig[-1][2] \
                and s.orig[:-1] == other.orig[:-1]:
            share = s.orig[-1][1] + other.orig[-1][1]
            if share == 1:
                if self.check_restore:
                    G = s.orig[-1][0]
                    both = OR(g, other.guard)
                    if self.feasible(AND(G, NOT(both))) or self.feasible(AND(both, NOT(G))):
                        raise Unsupported("internal: fork-share restoration is not an equivalence")
                s.guard = s.orig[-1][0]
                s.orig = s.orig[:-1]
                restored = True
                self.nrestored += 1
            else:
                s.orig = s.orig[:-1] + ((s.orig[-1][0], share, s.orig[-1][2]),)
        else:
            s.orig = ()
        if not restored:
            s.guard = OR(g, other.guard)
            if s.guard.sz > self.name_threshold and bexp.size(s.guard, self.name_threshold + 1) > self.name_threshold:
                s.guard = self.name_guard(s.guard)
        s.compute_prio()
        pending[k] = s

    def step_block(self, s):
        while True:
            f = s.frames[-1]
            ins = f.ci.instrs[f.pc]
            self.forks = []
            self.landed = False
            self.cur = s
            if self.trace:
                print(f"  [{bexp.show(s.guard, 2)}] {f.ci.code.co_name}:{f.pc} {ins.opname} {ins.argrepr}  stk={len(f.stack)}")
            saved = None
            if self.sched is not None and ins.opname in _MAY_PARK:
                saved = (list(f.stack), f.kwnames)
            try:
                h = _DISPATCH.get(ins.opname)
                if h is None:
                    raise Unsupported(f"opcode {ins.opname}")
                r = h(self, s, f, ins)
            except VMRaise as e:
                r = self.unwind(s, e.exc)
            except Park as p:
                # stop before the operation: restore the operand stack, the instruction is re-executed on resume
                if saved is None:
                    raise Unsupported(f"park at {ins.opname}")
                f.stack[:] = saved[0]
                f.kwnames = saved[1]
                s.status = "parked"
                s.park = p.info
                return [s] + self.forks
            self.ninstr += 1
            if r is None:
                f.pc += 1
                succ = [s]
            elif r is JUMPED:
                succ = [s]
            else:
                succ = r
            if self.forks:
                succ = [x for x in succ if x.guard is not FALSE] + self.forks
                self.forks = []
            if len(succ) != 1:
                return succ
            s = succ[0]
            if s.status != "run" or s.guard is FALSE:
                return succ
            f = s.frames[-1]
            if self.landed or f.pc in f.ci.leaders:
                return succ

    # ------------------------------------------------------------------ exceptions
    def raise_under(self, s, g: B, exc):
        """split off the part of s where g holds and make it raise exc"""
        if s.cg is not TRUE:
            g = AND(g, s.cg)
        gg = AND(s.guard, g)
        if gg is FALSE:
            return
        if self.use_solver and not self.feasible(gg):
            return
        rest = AND(s.guard, NOT(g))
        if rest is not FALSE and self.use_solver and not self.feasible(rest):
            rest = FALSE
        if rest is FALSE:
            raise VMRaise(exc)
        fork = s.copy(gg)
        mark_fork(s.guard, [s, fork])
        self.forks.extend(self.unwind(fork, exc))
        s.guard = rest

    def make_exc(self, cls, *args):
        try:
            return cls(*args)
        except Exception as e:  # pragma: no cover
            raise Unsupported(f"cannot build exception {cls}: {e}")

    def unwind(self, s, exc):
        """propagate exc (concrete exception instance or Union of them) in s; returns list of states"""
        if type(exc) is Union:
            out = []
            alts = [(AND(s.guard, g), e) for g, e in exc.alts]
            alts = [(gg, e) for gg, e in alts if gg is not FALSE]
            if not alts:
                return []
            top = (s.guard, Fraction(1, len(alts)), next(_fork_ids))
            for gg, e in alts:
                s2 = s.copy(gg)
                s2.orig = s.orig + (top,)
                out.extend(self.unwind(s2, e))
            return out
        if isinstance(exc, type) and issubclass(exc, BaseException):
            exc = self.make_exc(exc)
        if not isinstance(exc, BaseException):
            raise Unsupported(f"raising non-exception {exc!r}")
        while s.frames:
            f = s.frames[-1]
            h = f.ci.handler(f.pc)
            if h is not None:
                tgt, depth, lasti = h
                del f.stack[depth:]
                if lasti:
                    f.stack.append(f.pc)
                f.stack.append(exc)
                f.pc = tgt
                f.phase = 0
                self.landed = True
                return [s]
            s.frames.pop()
            if f.resume_kind is not None and f.gen is not None:
                self._gen_finish(f.gen, s.guard)
                if isinstance(exc, StopIteration):
                    exc = RuntimeError("generator raised StopIteration")
        s.status = "raised"
        s.result = exc
        self.lost = True
        return [s]

    # ------------------------------------------------------------------ values helpers
    def project(self, s, v, deep=False):
        """drop alternatives of a Union that are inconsistent with the guard of s
        (syntactically; with deep=True also by a solver query)"""
        if type(v) is not Union:
            return v
        keep = []
        for g, x in v.alts:
            gg = AND(s.guard, g)
            if gg is FALSE:
                continue
            if deep and self.use_solver and not self.feasible(gg):
                continue
            keep.append((g, x))
        if len(keep) == len(v.alts):
            return v
        if len(keep) == 1:
            return keep[0][1]
        if not keep:
            return UNDEF
        return Union(keep)

    def fork_union(self, s, v, k):
        """for a Union v: run k(state_i, alt_i) on a copy of s per feasible alternative; returns list"""
        out = []
        alts = []
        for g, x in v.alts:
            gg = AND(s.guard, g)
            if gg is FALSE:
                continue
            if self.use_solver and not self.feasible(gg):
                continue
            alts.append((gg, x))
        if not alts:
            s.guard = FALSE
            return []
        if len(alts) == 1:
            r = k(s, alts[0][1])
            return self._succ_of(s, r)
        top = (s.guard, Fraction(1, len(alts)), next(_fork_ids))
        for gg, x in alts:
            s2 = s.copy(gg)
            s2.orig = s.orig + (top,)
            saved = self.forks
            self.forks = []
            try:
                r = k(s2, x)
                res = self._succ_of(s2, r)
            except VMRaise as e:
                res = self.unwind(s2, e.exc)
            except Unsupported as e:
                self.unsupported.append((s2.guard, str(e), s2.where()))
                self.lost = True
                res = []
            res = [y for y in res if y.guard is not FALSE] + self.forks
            self.forks = saved
            out.extend(res)
        s.guard = FALSE
        return out

    def _succ_of(self, s, r):
        if r is None:
            s.frames[-1].pc += 1
            return [s]
        if r is JUMPED:
            return [s]
        return r

    # ------------------------------------------------------------------ calls
    def make_frame(self, vf: VFunc, args, kwargs, on_return):
        code = vf.code
        ci = CodeInfo.of(code)
        self.funcs_encoded.setdefault(code.co_qualname + "@" + code.co_filename, code)
        nloc = ci.nlocalsplus
        loc = [NULL] * nloc
        argc = code.co_argcount
        kwonly = code.co_kwonlyargcount
        names = ci.localnames
        npos = len(args)
        i = 0
        for i in range(min(npos, argc)):
            loc[i] = args[i]
        extra = args[argc:] if npos > argc else []
        idx = argc + kwonly
        if code.co_flags & CO_VARARGS:
            loc[idx] = tuple(extra)
            idx += 1
        elif extra:
            raise VMRaise(TypeError(f"{vf.qualname}() takes {argc} positional arguments but {npos} were given"))
        kwrest = None
        if code.co_flags & CO_VARKEYWORDS:
            kwrest = VDict()
            loc[idx] = kwrest
        for k, v in kwargs.items():
            try:
                j = names.index(k, 0, argc + kwonly)
            except ValueError:
                j = -1
            if j < 0 or j < code.co_posonlyargcount:
                if kwrest is not None:
                    kwrest.slots[k] = [TRUE, v]
                    continue
                raise VMRaise(TypeError(f"{vf.qualname}() got an unexpected keyword argument '{k}'"))
            if loc[j] is not NULL:
                raise VMRaise(TypeError(f"{vf.qualname}() got multiple values for argument '{k}'"))
            loc[j] = v
        defaults = vf.defaults
        nd = len(defaults)
        for j in range(argc):
            if loc[j] is NULL:
                d = j - (argc - nd)
                if d >= 0:
                    loc[j] = self.wrap_native(defaults[d]) if not isinstance(defaults[d], VObj) else defaults[d]
                else:
                    raise VMRaise(TypeError(f"{vf.qualname}() missing required positional argument '{names[j]}'"))
        for j in range(argc, argc + kwonly):
            if loc[j] is NULL:
                if names[j] in vf.kwdefaults:
                    loc[j] = self.wrap_native(vf.kwdefaults[names[j]])
                else:
                    raise VMRaise(TypeError(f"{vf.qualname}() missing keyword-only argument '{names[j]}'"))
        fr = Frame(ci, vf, loc, on_return)
        return fr

    def deliver(self, s, val, on_return):
        k = on_return[0]
        f = s.frames[-1]
        if k == "push":
            f.stack.append(val)
        elif k == "init":
            f.stack.append(on_return[1])
        elif k == "discard":
            pass
        elif k == "not":  # push negated truth
            f.stack.append(sym_bool(NOT(truth(val))))
        else:
            raise Unsupported(f"on_return {on_return}")
        f.pc += 1
        f.phase = 0

    def do_call(self, s, fn, args, kwargs=None, on_return=("push",)):
        """perform a call as (the rest of) the current instruction.  Returns JUMPED or list of states."""
        kwargs = kwargs or {}
        t = type(fn)
        if t is Union:
            fn = self.project(s, fn)
            if type(fn) is Union and all(self._plain_native(x) for _, x in fn.alts):
                from . import natives
                r = natives.call_native(self, s, fn, list(args), kwargs)
                self.deliver(s, r, on_return)
                return JUMPED
            fn = self.project(s, fn, True)
            if type(fn) is Union:
                return self.fork_union(s, fn, lambda s2, x: self.do_call(s2, x, args, kwargs, on_return))
            t = type(fn)
        if t is VMethod:
            return self.do_call(s, fn.func, [fn.self] + list(args), kwargs, on_return)
        if t is types.MethodType and isinstance(fn.__self__, VObj):
            return self.do_call(s, fn.__func__, [fn.__self__] + list(args), kwargs, on_return)
        if t is VFunc:
            return self.push_call(s, fn, args, kwargs, on_return)
        if t is VBuiltinMethod:
            from . import containers
            r = containers.call_method(self, s, fn.obj, fn.name, list(args), kwargs)
            if isinstance(r, _Pending):
                return r.value
            self.deliver(s, r, on_return)
            return JUMPED
        m = self.model_for(fn)
        if m is not None:
            r = m(self, s, list(args), kwargs)
            if isinstance(r, _Pending):
                return r.value
            self.deliver(s, r, on_return)
            return JUMPED
        if t is types.FunctionType:
            if self.is_encoded_module(fn.__module__) or self.is_encoded_module(fn.__globals__.get("__name__")):
                return self.push_call(s, self.vfunc_of(fn), args, kwargs, on_return)
        if isinstance(fn, type):
            return self.construct(s, fn, args, kwargs, on_return)
        if t is types.MethodType:
            f0 = fn.__func__
            if isinstance(f0, types.FunctionType) and self.is_encoded_module(f0.__module__) and not is_concrete(
                    tuple(args)):
                return self.do_call(s, f0, [fn.__self__] + list(args), kwargs, on_return)
        if isinstance(fn, VObj) or t is Sym:
            if t is VModel:
                h = self.model_methods.get((fn.kind, "__call__"))
                if h is not None:
                    r = h(self, s, fn, list(args), kwargs)
                    if isinstance(r, _Pending):
                        return r.value
                    self.deliver(s, r, on_return)
                    return JUMPED
            if t is VInst:
                call = static_lookup(fn.cls, "__call__")
                if call is not MISSING:
                    return self.do_call(s, call, [fn] + list(args), kwargs, on_return)
            raise Unsupported(f"call of {fn!r}")
        import functools
        if t is functools.partial:
            kw = dict(fn.keywords)
            kw.update(kwargs)
            return self.do_call(s, fn.func, [self.wrap_native(a) for a in fn.args] + list(args), kw, on_return)
        from . import natives
        r = natives.call_native(self, s, fn, list(args), kwargs)
        self.deliver(s, r, on_return)
        return JUMPED

    def _plain_native(self, fn):
        """a callable that would be executed natively (no model, not interpreted)"""
        t = type(fn)
        if isinstance(fn, (VObj, Sym)) or fn is None:
            return False
        if self.model_for(fn) is not None:
            return False
        if t is types.BuiltinFunctionType or t is types.BuiltinMethodType or t.__name__ in (
                "method_descriptor", "method-wrapper"):
            return True
        if t is types.MethodType:
            f0 = fn.__func__
            if isinstance(fn.__self__, VObj):
                return False
            return not (isinstance(f0, types.FunctionType) and self.is_encoded_module(f0.__module__))
        if t is types.FunctionType:
            return not (self.is_encoded_module(fn.__module__) or self.is_encoded_module(
                fn.__globals__.get("__name__")))
        return False

    def push_call(self, s, vf, args, kwargs, on_return):
        if len(s.frames) >= self.max_depth:
            raise Unsupported("call depth bound exceeded")
        fr = self.make_frame(vf, list(args), kwargs, on_return)
        s.frames.append(fr)
        return JUMPED

    def construct(self, s, cls, args, kwargs, on_return):
        m = self.model_for(cls)
        if m is not None:
            r = m(self, s, list(args), kwargs)
            if isinstance(r, _Pending):
                return r.value
            self.deliver(s, r, on_return)
            return JUMPED
        import dataclasses
        if (self.is_encoded_module(cls.__module__) and cls not in self.native_classes
                and not issubclass(cls, BaseException) and not dataclasses.is_dataclass(cls)):
            inst = VInst(cls, birth=s.guard)
            self.nobjects = getattr(self, "nobjects", 0) + 1
            inst.tag = self.nobjects
            init = static_lookup(cls, "__init__")
            if init is MISSING or init is object.__init__:
                if args or kwargs:
                    raise VMRaise(TypeError(f"{cls.__name__}() takes no arguments"))
                self.deliver(s, inst, on_return)
                return JUMPED
            if on_return[0] != "push":
                raise Unsupported("constructor call with unusual continuation")
            return self.do_call(s, init, [inst] + list(args), kwargs, ("init", inst))
        from . import natives
        r = natives.call_native(self, s, cls, list(args), kwargs)
        self.deliver(s, r, on_return)
        return JUMPED

    # ------------------------------------------------------------------ generators
    def _gen_save(self, gen, g, fr):
        if type(gen) is Union:
            for ga, gi in gen.alts:
                gg = AND(g, ga)
                if gg is not FALSE:
                    self._gen_save(gi, gg, fr.copy())
            return
        fr.resume_kind = None
        fr.gen = None
        fr.aux = None
        fr.on_return = ("push",)
        old = gen.frame
        if g is TRUE or g is gen.birth:
            gen.frame = fr
            return
        new = []
        merged = False
        for ga, fa in alts_of(old):
            if not merged and isinstance(fa, Frame) and fa.ci is fr.ci and fa.pc == fr.pc and len(fa.stack) == len(
                    fr.stack):
                fb = fa.copy()
                merge_frames(g, fr, fb)
                new.append((OR(g, ga), fr))
                merged = True
            else:
                new.append((AND(ga, NOT(g)), fa))
        if not merged:
            new.append((g, fr))
        gen.frame = mk_union(new)

    def _gen_finish(self, gen, g):
        if type(gen) is Union:
            for ga, gi in gen.alts:
                gg = AND(g, ga)
                if gg is not FALSE:
                    self._gen_finish(gi, gg)
            return
        if g is TRUE or g is gen.birth:
            gen.frame = None
        else:
            gen.frame = merge(g, None, gen.frame)

    def resume_gen(self, s, gen, sendval, kind, aux=None):
        """continue generator `gen` on top of s; consumer's pc stays on the consuming instruction"""
        fr = self.project(s, gen.frame, True)
        if type(fr) is Union:
            def k(s2, alt):
                return self._resume_alt(s2, gen, alt, sendval, kind, aux)
            return self.fork_union(s, fr, k)
        return self._resume_alt(s, gen, fr, sendval, kind, aux)

    def _resume_alt(self, s, gen, fr, sendval, kind, aux):
        if fr is None:
            return self._gen_exhausted(s, kind, None, aux)
        if fr is UNDEF:
            raise Unsupported("generator frame undefined")
        if len(s.frames) >= self.max_depth:
            raise Unsupported("call depth bound exceeded (generator)")
        fr = fr.copy()
        fr.stack.append(sendval)
        fr.gen = gen
        fr.resume_kind = kind
        fr.aux = aux
        s.frames.append(fr)
        return JUMPED

    def _gen_exhausted(self, s, kind, retval, aux):
        f = s.frames[-1]
        if kind == "for":
            f.stack.pop()
            f.pc = f.ci.jt[f.pc] + 1
            self.landed = True
            return JUMPED
        if kind == "send":
            f.stack[-1] = retval
            f.pc = f.ci.jt[f.pc]
            self.landed = True
            return JUMPED
        if kind == "drain":
            self.deliver(s, aux[0], aux[1])
            return JUMPED
        if kind == "next":
            if aux is not None and aux[0] == "default":
                self.deliver(s, aux[1], aux[2])
                return JUMPED
            raise VMRaise(StopIteration(retval) if retval is not None else StopIteration())
        raise Unsupported(f"resume kind {kind}")

    def gen_yield(self, s, fr, val):
        kind = fr.resume_kind
        aux = fr.aux
        gen = fr.gen
        if kind == "drain":
            # the consumer only collects: stay inside the generator (states re-merge at the generator's own loops)
            from . import containers
            containers.list_append(self, s, aux[0], val, s.guard)
            fr.stack.append(None)
            fr.pc += 1
            return JUMPED
        s.frames.pop()
        fr.pc += 1
        self._gen_save(gen, s.guard, fr)
        f = s.frames[-1]
        self.landed = True
        if kind == "for":
            f.stack.append(val)
            f.pc += 1
        elif kind == "send":
            f.stack[-1] = val
            f.pc += 1
        elif kind == "next":
            self.deliver(s, val, aux[2] if aux else ("push",))
        else:
            raise Unsupported(f"yield to {kind}")
        return JUMPED

    def gen_return(self, s, fr, val):
        kind = fr.resume_kind
        aux = fr.aux
        s.frames.pop()
        self._gen_finish(fr.gen, s.guard)
        return self._gen_exhausted(s, kind, val, aux)


class _Pending:
    """returned by models that already arranged control flow themselves"""

    def __init__(self, value):
        self.value = value


_DISPATCH = {}


def op(*names):
    def deco(fn):
        for n in names:
            _DISPATCH[n] = fn
        return fn
    return deco


from . import opcodes  # noqa: E402,F401  (registers handlers)
