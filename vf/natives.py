"""Builtin models, lifted native calls and the harness API of the symbolic VM."""
from __future__ import annotations

import builtins
import collections
import itertools
import types
import logging
import z3

from .bexp import B, TRUE, FALSE, AND, OR, NOT, const, fresh, var, atom, to_z3
from .values import (Sym, Union, VObj, VInst, VList, VDict, VSet, VCell, VFunc, VMethod, VBuiltinMethod, VIter,
                     VGen, VSuper, VModel, SlotRef, NULL, UNDEF, Unsupported, merge, mk_union, alts_of, truth,
                     sym_bool, is_concrete)
from . import containers as C
from . import prelude

from .values import MISSING  # noqa: E402
MAX_COMBOS = 4096


def _vmraise(e):
    from .vm import VMRaise
    return VMRaise(e)


def _pending(x):
    from .vm import _Pending
    return _Pending(x)


# ------------------------------------------------------------------------------- native calls


def concretize(vm, s, v):
    """[(guard, python value)] alternatives of v, or Unsupported"""
    t = type(v)
    if t is Union:
        out = []
        for g, x in v.alts:
            if AND(s.guard, g) is FALSE:
                continue
            for g2, y in concretize(vm, s, x):
                gg = AND(g, g2)
                if gg is not FALSE:
                    out.append((gg, y))
        return out
    if t is tuple:
        if is_concrete(v):
            return [(TRUE, v)]
        return [(g, tuple(xs)) for g, xs in _product(vm, s, list(v))]
    if t is VList:
        if not v.is_plain():
            raise Unsupported("guarded list passed to native code")
        return [(g, list(xs)) for g, xs in _product(vm, s, [x for _, x in v.slots])]
    if t is VSet:
        if any(p is not TRUE for p in v.slots.values()):
            raise Unsupported("guarded set passed to native code")
        return [(TRUE, (frozenset if v.frozen else set)(v.slots.keys()))]
    if t is VDict:
        if v.assoc or any(p is not TRUE for p, _ in v.slots.values()):
            raise Unsupported("guarded dict passed to native code")
        keys = list(v.slots.keys())
        return [(g, dict(zip(keys, xs))) for g, xs in _product(vm, s, [x for _, x in v.slots.values()])]
    if t is Sym:
        raise Unsupported(f"symbolic scalar passed to native code: {v!r}")
    if isinstance(v, VObj):
        raise Unsupported(f"VM object passed to native code: {v!r}")
    if v is NULL or v is UNDEF:
        raise Unsupported("unbound value passed to native code")
    return [(TRUE, v)]


def _product(vm, s, items):
    outs = [(TRUE, [])]
    for it in items:
        alts = concretize(vm, s, it)
        if len(alts) == 1 and alts[0][0] is TRUE:
            for _, pre in outs:
                pre.append(alts[0][1])
            continue
        nxt = []
        for g, pre in outs:
            for g2, x in alts:
                gg = AND(g, g2)
                if gg is FALSE or AND(s.guard, gg) is FALSE:
                    continue
                nxt.append((gg, pre + [x]))
        if len(nxt) > 128 and vm.use_solver:
            nxt = [(g, pre) for g, pre in nxt if vm.feasible(AND(s.guard, s.cg, g))]
        if len(nxt) > MAX_COMBOS:
            raise Unsupported("too many alternatives in native call")
        outs = nxt
    return outs


def call_native(vm, s, fn, args, kwargs):
    if isinstance(fn, (VObj, Sym)):
        raise Unsupported(f"call of {fn!r}")
    kwkeys = list(kwargs.keys())
    combos = _product(vm, s, [fn] + list(args) + [kwargs[k] for k in kwkeys])
    n = len(args) + 1
    out = []
    vm.nnative = getattr(vm, "nnative", 0) + len(combos)
    for g, xs in combos:
        try:
            r = xs[0](*xs[1:n], **dict(zip(kwkeys, xs[n:])))
        except Exception as e:
            if len(combos) == 1:
                raise _vmraise(e)
            vm.raise_under(s, g, e)
            continue
        out.append((g, vm.wrap_native(r)))
    if not out:
        s.guard = FALSE
        return None
    if len(out) == 1:
        return out[0][1]
    return mk_union(out)


# ------------------------------------------------------------------------------- builtin models


def m_len(vm, s, args, kw):
    return C.length(vm, s, args[0])


def _isinstance_atomic(vm, x, cls):
    t = type(x)
    if t is VInst:
        return issubclass(x.cls, cls)
    if t is Sym:
        proto = {"bool": True, "int": 0, "real": 0.0, "bits": 0, "bv": 0}[x.sort]
        return isinstance(proto, cls)
    if t is VList:
        return isinstance(collections.deque() if x.kind == "deque" else [], cls)
    if t is VDict:
        return isinstance(collections.defaultdict() if x.default_factory else {}, cls)
    if t is VSet:
        return isinstance(frozenset() if x.frozen else set(), cls)
    if t in (VFunc,):
        return isinstance(_isinstance_atomic, cls)
    if t is VMethod:
        return isinstance(types.MethodType(len, 0), cls) if False else (cls is types.MethodType or (
            isinstance(cls, tuple) and types.MethodType in cls))
    if isinstance(x, VObj):
        return False
    return isinstance(x, cls)


def m_isinstance(vm, s, args, kw):
    from .opcodes import lift2
    x, cls = args
    if type(cls) is VSet:
        cls = tuple(cls.slots.keys())
    return lift2(vm, s, x, cls, lambda a, c: _isinstance_atomic(vm, a, c))


def m_issubclass(vm, s, args, kw):
    from .opcodes import lift2
    return lift2(vm, s, args[0], args[1], lambda a, c: issubclass(a, c))


def m_hasattr(vm, s, args, kw):
    from .opcodes import load_attr_atomic, _NeedCall, lift2
    from .vm import VMRaise, static_lookup, MISSING as VM_MISSING

    def one(obj, name):
        if type(obj) is VInst:
            if static_lookup(obj.cls, name) is not VM_MISSING:
                return True
            v = obj.fields.get(name, UNDEF)
            if v is UNDEF:
                return False
            if type(v) is Union:
                return sym_bool(NOT(OR(*[g for g, x in v.alts if x is UNDEF])))
            return True
        try:
            load_attr_atomic(vm, s, obj, name)
            return True
        except _NeedCall:
            return True
        except VMRaise as e:
            if isinstance(e.exc, AttributeError):
                return False
            raise
    return lift2(vm, s, args[0], args[1], one)


def m_getattr(vm, s, args, kw):
    from .opcodes import load_attr_atomic, _NeedCall
    from .vm import VMRaise
    obj, name = args[0], args[1]
    default = args[2] if len(args) > 2 else MISSING
    if type(obj) is Union or type(name) is Union:
        obj = vm.project(s, obj)
    res = []
    cg0 = s.cg
    try:
        for go, o in alts_of(obj):
            for gn, n in alts_of(name):
                g = AND(go, gn)
                if AND(s.guard, g) is FALSE:
                    continue
                s.cg = AND(cg0, g)
                try:
                    kind, v = load_attr_atomic(vm, s, o, n)
                    res.append((g, VMethod(v, o) if kind == "method" else v))
                except _NeedCall as nc:
                    if type(obj) is Union or type(name) is Union:
                        raise Unsupported("getattr() of a property on a merged receiver")
                    s.cg = cg0
                    return _pending(vm.do_call(s, nc.fn, nc.args, {}, ("push",)))
                except VMRaise as e:
                    if isinstance(e.exc, AttributeError) and default is not MISSING:
                        res.append((g, default))
                    else:
                        vm.raise_under(s, TRUE, e.exc)
    finally:
        s.cg = cg0
    return mk_union(res)


def m_setattr(vm, s, args, kw):
    obj, name, v = args
    if type(obj) is VInst and type(name) is str:
        obj.set(name, v, C.wguard(s, obj))
        return None
    raise Unsupported("setattr")


def m_bool(vm, s, args, kw):
    if not args:
        return False
    return sym_bool(truth(args[0]))


def m_int(vm, s, args, kw):
    from .opcodes import lift1
    if not args:
        return 0

    def one(x):
        if type(x) is Sym:
            if x.sort == "int":
                return x
            if x.sort == "bool":
                return Sym("int", z3.If(to_z3(x.e), 1, 0))
            raise Unsupported("int() of symbolic real")
        if isinstance(x, VObj):
            raise Unsupported("int() of VM object")
        return int(x, *args[1:])
    return lift1(vm, s, args[0], one)


def m_str(vm, s, args, kw):
    from .opcodes import lift1
    if not args:
        return ""
    if len(args) > 1 or kw:
        return call_native(vm, s, str, args, kw)

    def one(x):
        if type(x) is Sym or isinstance(x, VObj):
            return "<?>"
        if type(x) is tuple and not is_concrete(x):
            return "<?>"
        return str(x)
    return lift1(vm, s, args[0], one)


def m_repr(vm, s, args, kw):
    from .opcodes import lift1

    def one(x):
        if type(x) is Sym or isinstance(x, VObj) or (type(x) is tuple and not is_concrete(x)):
            return "<?>"
        return repr(x)
    return lift1(vm, s, args[0], one)


def m_type(vm, s, args, kw):
    from .opcodes import lift1
    if len(args) != 1:
        raise Unsupported("type() with 3 arguments")

    def one(x):
        t = type(x)
        if t is VInst:
            return x.cls
        if t is Sym:
            return {"bool": bool, "int": int, "real": float, "bits": int, "bv": int}[x.sort]
        if t is VList:
            return collections.deque if x.kind == "deque" else list
        if t is VDict:
            return collections.defaultdict if x.default_factory else dict
        if t is VSet:
            return frozenset if x.frozen else set
        if t is VFunc:
            return types.FunctionType
        if isinstance(x, VObj):
            raise Unsupported(f"type() of {x!r}")
        return t
    return lift1(vm, s, args[0], one)


def m_id(vm, s, args, kw):
    return id(args[0])


def m_hash(vm, s, args, kw):
    x = args[0]
    if isinstance(x, VObj):
        return id(x)
    return call_native(vm, s, hash, args, kw)


def m_print(vm, s, args, kw):
    return None


def m_callable(vm, s, args, kw):
    x = args[0]
    if type(x) in (VFunc, VMethod, VBuiltinMethod):
        return True
    if isinstance(x, VObj):
        return False
    return callable(x)


def m_list(vm, s, args, kw):
    if not args:
        return VList(birth=s.guard)
    x = args[0]
    if type(x) is VGen:
        # list(generator): drain it; the consumer does nothing between two yields, so this is exact
        out = VList(birth=s.guard)
        return _pending(vm.resume_gen(s, x, None, "drain", (out, ("push",))))
    if _has_gen(x):
        return _pending(vm.do_call(s, prelude.p_list, [x], {}, ("push",)))
    return C.copy_list(vm, s, x)


def _has_gen(x):
    if type(x) is VGen:
        return True
    if type(x) is Union:
        return any(type(y) is VGen for _, y in x.alts)
    return False


def m_tuple(vm, s, args, kw):
    if not args:
        return ()
    x = args[0]
    if type(x) is tuple:
        return x
    if _has_gen(x):
        return _pending(vm.do_call(s, prelude.p_tuple, [x], {}, ("push",)))
    items = C.iter_items(vm, s, x)
    if any(p is not TRUE for p, _ in items):
        raise Unsupported("tuple() of guarded sequence")
    return tuple(v for _, v in items)


def m_set(vm, s, args, kw):
    if not args:
        return VSet(birth=s.guard)
    x = args[0]
    if _has_gen(x):
        return _pending(vm.do_call(s, prelude.p_set, [x], {}, ("push",)))
    return C.copy_set(vm, s, x)


def m_frozenset(vm, s, args, kw):
    if not args:
        return frozenset()
    x = args[0]
    if isinstance(x, frozenset):
        return x
    if _has_gen(x):
        raise Unsupported("frozenset(generator)")
    items = C.iter_items(vm, s, x)
    if all(p is TRUE and is_concrete(v) for p, v in items):
        try:
            return frozenset(v for _, v in items)
        except TypeError as e:
            raise _vmraise(e)
    return C.copy_set(vm, s, x, frozen=True)


def m_dict(vm, s, args, kw):
    d = VDict(birth=s.guard)
    if args:
        x = args[0]
        if type(x) is VDict or isinstance(x, dict):
            C.dict_update(vm, s, d, x, TRUE)
        else:
            for p, kv in C.iter_items(vm, s, x):
                if type(kv) is not tuple or len(kv) != 2:
                    raise Unsupported("dict() from non-pairs")
                C.setitem(vm, s, d, kv[0], kv[1], p)
    for k, v in kw.items():
        d.slots[k] = [TRUE, v]
    return d


def m_defaultdict(vm, s, args, kw):
    d = VDict(kind="defaultdict", birth=s.guard, default_factory=args[0] if args else None)
    return d


def m_deque(vm, s, args, kw):
    if args:
        return C.copy_list(vm, s, args[0], kind="deque")
    return VList(kind="deque", birth=s.guard)


def m_enumerate(vm, s, args, kw):
    x = args[0]
    start = args[1] if len(args) > 1 else kw.get("start", 0)
    if type(x) is VList and not x.is_plain():
        if start != 0:
            raise Unsupported("enumerate(start) on guarded list")
        seq = []
        before = []
        for j, (p, v) in enumerate(x.slots):
            if p is FALSE:
                continue
            seq.append((p, (SlotRef(x, j, tuple(before)), v)))
            before.append(p)
        return VIter(seq, 0, x)
    if _has_gen(x):
        return _pending(vm.do_call(s, prelude.p_enumerate, [x, start], {}, ("push",)))
    items = C.iter_items(vm, s, x)
    if any(p is not TRUE for p, _ in items):
        if start != 0:
            raise Unsupported("enumerate(start) over guarded sequence")
        seq = []
        before = []
        for j, (p, v) in enumerate(items):
            seq.append((p, (SlotRef(None, j, tuple(before)), v)))
            before.append(p)
        return VIter(seq, 0, x)
    return VIter([(TRUE, (start + i, v)) for i, (_, v) in enumerate(items)], 0, x)


def m_zip(vm, s, args, kw):
    cols = [C.iter_items(vm, s, a) for a in args]
    if any(any(p is not TRUE for p, _ in c) for c in cols):
        raise Unsupported("zip over guarded sequences")
    n = min((len(c) for c in cols), default=0)
    return VIter([(TRUE, tuple(c[i][1] for c in cols)) for i in range(n)], 0, None)


def m_reversed(vm, s, args, kw):
    items = C.iter_items(vm, s, args[0])
    return VIter(list(reversed(items)), 0, None)


def m_iter(vm, s, args, kw):
    return C.get_iter(vm, s, args[0])


def m_next(vm, s, args, kw):
    it = args[0]
    if type(it) is VGen:
        aux = ("default", args[1], ("push",)) if len(args) > 1 else ("raise", None, ("push",))
        return _pending(vm.resume_gen(s, it, None, "next", aux))
    raise Unsupported("next() on non-generator iterator")


def m_sorted(vm, s, args, kw):
    x = args[0]
    if _has_gen(x):
        raise Unsupported("sorted(generator)")
    items = C.iter_items(vm, s, x)
    if all(p is TRUE and is_concrete(v) for p, v in items) and all(is_concrete(v) for v in kw.values()):
        try:
            return VList(sorted([v for _, v in items], **kw), birth=s.guard)
        except Exception as e:
            raise _vmraise(e)
    raise Unsupported("sorted() of symbolic data")


def m_any(vm, s, args, kw):
    return _pending(vm.do_call(s, prelude.p_any, [args[0]], {}, ("push",)))


def m_all(vm, s, args, kw):
    return _pending(vm.do_call(s, prelude.p_all, [args[0]], {}, ("push",)))


def m_minmax(which):
    def m(vm, s, args, kw):
        if len(args) == 1:
            items = C.iter_items(vm, s, args[0])
            if all(p is TRUE and is_concrete(v) for p, v in items):
                try:
                    return which([v for _, v in items], **kw)
                except Exception as e:
                    raise _vmraise(e)
            raise Unsupported("min/max of symbolic data")
        if all(is_concrete(a) for a in args):
            return which(*args)
        # two-argument numeric case
        from .opcodes import lift2, binop_atomic
        if len(args) == 2:
            a, b = args
            lt = truth(lift2(vm, s, a, b, lambda x, y: binop_atomic(vm, s, "<", x, y)))
            return merge(lt, a, b) if which is min else merge(lt, b, a)
        raise Unsupported("min/max")
    return m


def m_sum(vm, s, args, kw):
    from .opcodes import lift2, binop_atomic
    items = C.iter_items(vm, s, args[0])
    acc = args[1] if len(args) > 1 else 0
    for p, v in items:
        add = lift2(vm, s, acc, v, lambda x, y: binop_atomic(vm, s, "+", x, y))
        acc = merge(p, add, acc)
    return acc


def m_abs(vm, s, args, kw):
    from .opcodes import lift1

    def one(x):
        if type(x) is Sym:
            return Sym(x.sort, z3.If(x.e >= 0, x.e, -x.e))
        return abs(x)
    return lift1(vm, s, args[0], one)


def m_super(vm, s, args, kw):
    if len(args) == 2:
        return VSuper(args[0], args[1])
    # zero-argument form: __class__ cell and first argument of the calling frame
    f = s.frames[-1]
    names = f.ci.localnames
    if "__class__" in names:
        c = f.locals[names.index("__class__")]
        cls = c.v if type(c) is VCell else c
        return VSuper(cls, f.locals[0].v if type(f.locals[0]) is VCell else f.locals[0])
    raise Unsupported("super() without __class__")


def m_logger_noop(vm, s, args, kw):
    return None


def m_object_init(vm, s, args, kw):
    return None


def m_isdir_S(vm, s, args, kw):
    return call_native(vm, s, args, kw)


def m_partial(vm, s, args, kw):
    import functools
    if all(is_concrete(a) for a in args) and all(is_concrete(v) for v in kw.values()):
        return functools.partial(*args, **kw)
    fn = args[0]
    return VModel("partial", fn=fn, args=tuple(args[1:]), kw=dict(kw))


def partial_call(vm, s, obj, args, kw):
    k2 = dict(obj.f["kw"])
    k2.update(kw)
    return _pending(vm.do_call(s, obj.f["fn"], list(obj.f["args"]) + list(args), k2, ("push",)))


# ------------------------------------------------------------------------------- harness API


def install(vm):
    vm.model_methods = {}
    vm.model_attrs = {}
    reg = vm.register_model
    reg(len, m_len)
    reg(isinstance, m_isinstance)
    reg(issubclass, m_issubclass)
    reg(hasattr, m_hasattr)
    reg(getattr, m_getattr)
    reg(setattr, m_setattr)
    reg(bool, m_bool)
    reg(int, m_int)
    reg(str, m_str)
    reg(repr, m_repr)
    reg(type, m_type)
    reg(id, m_id)
    reg(hash, m_hash)
    reg(print, m_print)
    reg(callable, m_callable)
    reg(list, m_list)
    reg(tuple, m_tuple)
    reg(set, m_set)
    reg(frozenset, m_frozenset)
    reg(dict, m_dict)
    reg(collections.defaultdict, m_defaultdict)
    reg(collections.deque, m_deque)
    reg(enumerate, m_enumerate)
    reg(zip, m_zip)
    reg(reversed, m_reversed)
    reg(iter, m_iter)
    reg(next, m_next)
    reg(sorted, m_sorted)
    reg(any, m_any)
    reg(all, m_all)
    reg(min, m_minmax(min))
    reg(max, m_minmax(max))
    reg(sum, m_sum)
    reg(abs, m_abs)
    reg(super, m_super)
    reg(object.__init__, m_object_init)
    import functools
    reg(functools.partial, m_partial)
    vm.model_methods[("partial", "__call__")] = partial_call
    for name in ("debug", "info", "warning", "error", "exception", "critical", "log"):
        reg(getattr(logging.Logger, name), m_logger_noop)
    if "vf.prelude" not in vm.encode:
        vm.encode = vm.encode + ("vf.prelude",)
    from . import api, prims
    api.install(vm)
    prims.install(vm)
