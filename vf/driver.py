"""Common driver: run harnesses in the VM, discharge the obligations with z3 (queries in parallel
through z3 processes fed SMT-LIB2 generated from the encoding), replay counterexamples natively,
write evidence, apply the exit-code protocol (DESIGN.md section 1)."""
from __future__ import annotations

import concurrent.futures as cf
import hashlib
import importlib
import inspect
import json
import multiprocessing
import os
import subprocess
import sys
import tempfile
import time
import traceback
import z3

from . import api, bexp
from .bexp import TRUE, FALSE, AND, OR, NOT, to_z3
from .values import Unsupported
from .vm import VM

EVID_DIR = "/verif/evidence"
REPLAY_DIR = "/verif/replays"
KNOWN_FILE = "/verif/known_findings.jsonl"
Z3_BIN = "z3-new"
NCPU = min(16, os.cpu_count() or 4)


class Inconclusive(Exception):
    pass


def model_value(model, kind, payload):
    if kind == "bool":
        return bool(z3.is_true(model.eval(to_z3(payload), model_completion=True)))
    if kind in ("int", "bv"):
        return model.eval(payload, model_completion=True).as_long()
    if kind == "real":
        v = model.eval(payload, model_completion=True)
        return str(v.as_fraction()) if z3.is_rational_value(v) else str(v)
    if kind == "choice":
        for b, i in payload:
            if b is TRUE or z3.is_true(model.eval(to_z3(b), model_completion=True)):
                return i
        return 0
    raise ValueError(kind)


def _run_z3(text, timeout_s):
    t0 = time.time()
    try:
        p = subprocess.run([Z3_BIN, "-in", "-smt2", f"-T:{int(timeout_s)}"], input=text, capture_output=True,
                           text=True, timeout=timeout_s + 30)
        out = p.stdout.strip().splitlines()
        if "(error" in p.stdout:
            verdict = "unknown"
        else:
            verdict = out[0].strip() if out else "unknown"
        if verdict not in ("sat", "unsat"):
            verdict = "unknown"
    except subprocess.TimeoutExpired:
        verdict = "unknown"
    return verdict, time.time() - t0


def _run_cvc5(text, timeout_s):
    t0 = time.time()
    with tempfile.NamedTemporaryFile("w", suffix=".smt2", delete=False) as f:
        f.write(text)
        path = f.name
    try:
        p = subprocess.run(["cvc5", f"--tlimit={int(timeout_s * 1000)}", path], capture_output=True, text=True,
                           timeout=timeout_s + 30)
        out = [l for l in p.stdout.strip().splitlines() if l.strip() in ("sat", "unsat", "unknown")]
        verdict = out[0].strip() if out else "unknown"
        if "(error" in p.stdout or "rror" in p.stderr:
            verdict = "unknown"
    except subprocess.TimeoutExpired:
        verdict = "unknown"
    finally:
        os.unlink(path)
    return verdict, time.time() - t0


class Session:
    """one symbolic execution of one harness function + its queries"""

    def __init__(self, name, harness, args=(), encode=("watchdog",), use_solver=True, expected_exceptions=(),
                 setup=None, query_timeout_s=600, jobs=4, cross_check=False, native_ctx=None, steps=0, racy=()):
        self.name = name
        self.harness = harness
        self.args = tuple(args)
        self.expected_exceptions = tuple(expected_exceptions)
        mod = harness.__module__
        self.vm = VM(encode=tuple(encode) + (mod,), use_solver=use_solver)
        self.setup = setup
        if setup:
            setup(self.vm)
        self.queries = []  # dicts
        self.build_s = 0.0
        self.query_timeout_s = query_timeout_s
        self.sat_part = {}
        self.jobs = jobs
        self.cross_check = cross_check
        self.native_ctx = native_ctx
        self.steps = steps
        self.racy = racy
        self.sched = None
        self.finals = []
        self.samples = []
        self.cross = {"agree": 0, "disagree": 0, "cvc5_unknown": 0}
        self.combined_unsat = False

    # ----------------------------------------------------------------------------- build
    def build(self):
        vm = self.vm
        t0 = time.time()
        s0 = vm.new_state(self.harness, list(self.args))
        if self.steps:
            from .conc import Sched
            vm.use_solver = False
            vm.prune_branches = False
            bexp.USE_IMP = True
            sch = Sched(vm, self.steps, racy=self.racy)
            vm.sched = sch
            self.finals = sch.run(s0)
            self.sched = sch
        else:
            self.finals = vm.run([s0])
        self.build_s = time.time() - t0
        return self

    # ----------------------------------------------------------------------------- queries
    def _smt2(self, cond):
        self.vm.flush_defs()
        sol = z3.Solver()
        for a in self.vm.solver.assertions():
            sol.add(a)
        sol.add(to_z3(cond))
        return sol.to_smt2()

    def _model(self, cond):
        self.vm.flush_defs()
        sol = self.vm.solver
        sol.push()
        sol.set("timeout", int(self.query_timeout_s * 1000))
        sol.add(to_z3(cond))
        r = sol.check()
        m = sol.model() if r == z3.sat else None
        sol.pop()
        sol.set("timeout", 20000)
        return m

    def _fork_check(self, cond, timeout_s):
        """decide assumptions & cond in a forked child (shares the encoding copy-on-write: no export, no parse)"""
        self.vm.flush_defs()
        zc = to_z3(cond)
        r, w = os.pipe()
        pid = os.fork()
        if pid == 0:
            res = "unknown"
            try:
                os.close(r)
                sol = self.vm.solver
                sol.set("timeout", int(timeout_s * 1000))
                sol.add(zc)
                res = str(sol.check())
            except BaseException:
                res = "unknown"
            try:
                os.write(w, res.encode())
            finally:
                os._exit(0)
        os.close(w)
        return pid, r

    def solve_portfolio(self, first, checks, parts, grace_s=20):
        """Engine B: the combined query races against the individual disjuncts of every check (one query per
        obligation instance / per step of the deadlock condition).  unsat of the combined query settles everything;
        a sat disjunct settles its check as violated (finding a witness of one small disjunct is often orders of
        magnitude faster than finding one for the big disjunction).  Returns {label: sat|unsat|unknown|skipped}."""
        import signal
        COMB = "combined:any obligation violated?"
        self.sat_part = {}
        subs = []
        for label, cond in checks:
            ps = parts.get(label) or [cond]
            if len(ps) > 48:      # keep the number of processes bounded
                n = (len(ps) + 47) // 48
                ps = [OR(*ps[i:i + n]) for i in range(0, len(ps), n)]
            for i, pc in enumerate(ps):
                if pc is not FALSE:
                    subs.append((label, i, pc))
        verdicts = {}
        pending = [("first", l, None, c) for l, c in first] + [("sub", l, i, c) for l, i, c in subs]
        running = {}
        jobs = max(2, self.jobs)
        sub_verdicts = {}
        first_sat_at = None
        comb_done = False
        while pending or running:
            while pending and len(running) < jobs:
                kind, label, i, cond = pending.pop(0)
                pid, fd = self._fork_check(cond, self.query_timeout_s)
                running[pid] = (kind, label, i, cond, fd, time.time())
            if first_sat_at is not None and time.time() - first_sat_at > grace_s:
                break
            try:
                pid, status = os.waitpid(-1, os.WNOHANG) if first_sat_at is not None else os.wait()
            except ChildProcessError:
                break
            if pid == 0:
                time.sleep(0.2)
                continue
            if pid not in running:
                continue
            kind, label, i, cond, fd, t0 = running.pop(pid)
            try:
                data = os.read(fd, 64).decode().strip()
            finally:
                os.close(fd)
            v = data if data in ("sat", "unsat") else "unknown"
            self.queries.append({"label": label if kind == "first" else f"{label} [part {i}]", "verdict": v,
                                 "seconds": round(time.time() - t0, 3)})
            if kind == "first":
                verdicts[label] = v
                if label == COMB:
                    comb_done = True
                    if v == "unsat":
                        pending = [p for p in pending if p[0] == "first"]
                        for q, rec in list(running.items()):
                            if rec[0] == "sub":
                                self._kill(q, rec[4])
                                del running[q]
            else:
                sub_verdicts.setdefault(label, {})[i] = v
                if v == "sat" and label not in self.sat_part:
                    self.sat_part[label] = cond
                    if first_sat_at is None:
                        first_sat_at = time.time()
                        # the combined query is no longer needed
                        pending = [p for p in pending if not (p[0] == "first" and p[1] == COMB)]
                        for q, rec in list(running.items()):
                            if rec[0] == "first" and rec[1] == COMB:
                                self._kill(q, rec[4])
                                del running[q]
                                verdicts[COMB] = "sat"
        for q, rec in list(running.items()):
            self._kill(q, rec[4])
        if self.sat_part:
            verdicts[COMB] = "sat"
        if verdicts.get(COMB) == "unsat":
            return verdicts
        nparts = {}
        for label, i, c in subs:
            nparts[label] = nparts.get(label, 0) + 1
        for label, cond in checks:
            sv = sub_verdicts.get(label, {})
            if label in self.sat_part:
                verdicts[label] = "sat"
            elif len(sv) == nparts.get(label, 0) and all(x == "unsat" for x in sv.values()):
                verdicts[label] = "unsat"
            elif self.sat_part:
                verdicts[label] = "skipped"
            # else: left out - decided individually by the caller
        for l, c in first:
            verdicts.setdefault(l, "unknown")
        return verdicts

    @staticmethod
    def _kill(pid, fd):
        import signal
        try:
            os.kill(pid, signal.SIGKILL)
        except OSError:
            pass
        try:
            os.waitpid(pid, 0)
        except OSError:
            pass
        try:
            os.close(fd)
        except OSError:
            pass

    def solve_many(self, items):
        """items: [(label, cond B)] -> {label: verdict}"""
        verdicts = {}
        pending = list(items)
        running = {}  # pid -> (label, fd, t0)
        jobs = max(1, self.jobs)
        while pending or running:
            while pending and len(running) < jobs:
                label, cond = pending.pop(0)
                pid, fd = self._fork_check(cond, self.query_timeout_s)
                running[pid] = (label, fd, time.time())
            pid, status = os.wait()
            if pid not in running:
                continue
            label, fd, t0 = running.pop(pid)
            try:
                data = os.read(fd, 64).decode().strip()
            finally:
                os.close(fd)
            v = data if data in ("sat", "unsat") else "unknown"
            verdicts[label] = v
            self.queries.append({"label": label, "verdict": v, "seconds": round(time.time() - t0, 3)})
        if self.cross_check:
            self._cross_check(items, verdicts)
        return verdicts

    def _cross_check(self, items, verdicts):
        """second solver (cvc5) on the SMT-LIB2 export of each query; skipped for very large encodings"""
        import concurrent.futures as cf
        texts = []
        for label, cond in items:
            txt = self._smt2(cond)
            if len(txt) > 40_000_000:
                self.cross["skipped_too_large"] = self.cross.get("skipped_too_large", 0) + 1
                continue
            texts.append((label, txt))
        with cf.ThreadPoolExecutor(max_workers=max(1, self.jobs)) as ex:
            futs = {ex.submit(_run_cvc5, txt, min(self.query_timeout_s, 300)): label for label, txt in texts}
            for fut in cf.as_completed(futs):
                label = futs[fut]
                v, dt = fut.result()
                if v == "unknown":
                    self.cross["cvc5_unknown"] += 1
                elif v == verdicts[label]:
                    self.cross["agree"] += 1
                else:
                    self.cross["disagree"] += 1

    def replay_of(self, model):
        rep = {}
        for name, (kind, payload) in self.vm.symvars.items():
            rep[name] = model_value(model, kind, payload)
        return rep

    def discharge(self, exclude=None):
        """decide every obligation; returns list of (label, verdict, replay|None)"""
        vm = self.vm
        items = [("vacuity:assumptions-satisfiable", TRUE)]
        kinds = {"vacuity:assumptions-satisfiable": "sat-required"}
        conds = {"vacuity:assumptions-satisfiable": TRUE}

        self.label_cond = conds

        def add(label, cond, kind):
            base = label
            n = 1
            while label in kinds:
                n += 1
                label = f"{base}#{n}"
            items.append((label, cond))
            kinds[label] = kind
            conds[label] = cond
            return label
        reach = {}
        for g, label in vm.reached:
            reach.setdefault(label, []).append(g)
        for label, gs in reach.items():
            add(f"reach:{label}", OR(*gs), "sat-required")
        unsup = {}
        for g, msg, where in vm.unsupported:
            unsup.setdefault((msg[:80], where[:120]), []).append(g)
        for (msg, where), gs in unsup.items():
            add(f"unsupported-unreachable:{msg} @ {where}", OR(*gs), "unsat-required")
        exc_of = {}
        raised_groups = {}
        for st in self.finals:
            if st.status == "raised":
                exc = st.result
                if isinstance(exc, self.expected_exceptions):
                    continue
                key = (type(exc).__name__, str(exc)[:200])
                raised_groups.setdefault(key, ([], exc))[0].append(st.guard)
            elif st.status == "parked":
                if self.sched is None:
                    raise Inconclusive(f"{self.name}: state parked in sequential run")
        for (tn, msg), (gs, exc) in raised_groups.items():
            lab = add(f"no-uncaught:{tn}:{msg[:60]}", OR(*gs), "check")
            exc_of[lab] = exc
        parts = {}      # label -> disjuncts of its condition (Engine B: decided as a portfolio, see solve_portfolio)
        if self.sched is not None:
            dl = [g for k, g in self.sched.deadlocks]
            if dl:
                lab = add("check:no deadlock (some thread unfinished, nobody enabled, no timed waiter)", OR(*dl), "check")
                parts[lab] = dl
            if self.sched.enabled_at_end is not FALSE:
                add("unwinding:no thread is still enabled at the step bound", self.sched.enabled_at_end, "unsat-required")
            allfin = AND(*[NOT(st.guard) for st in self.finals if st.status == "parked" and st.park[0] != "forever"])
            add("reach:some schedule runs every thread to completion", allfin, "sat-required")
        for g, what, where in getattr(vm, "blocked", []):
            add(f"check:blocks forever: {what}", g, "check")
        for g, what, where in getattr(vm, "prim_violations", []):
            add(f"check:{what}", g, "check")
        bylabel = {}
        for g, label, where in vm.obligations:
            bylabel.setdefault(label, []).append(g)
        for label, gs in bylabel.items():
            cond = OR(*gs)
            if exclude is not None:
                cond = AND(cond, exclude(label))
            lab = add(f"check:{label}", cond, "check")
            if exclude is None:
                parts[lab] = gs
        # one combined query first: if no obligation at all is violated, a single unsat settles every check
        checks = [(label, cond) for label, cond in items if kinds[label] in ("check", "unsat-required")]
        pre = {}
        if len(checks) > 3:
            comb = OR(*[c for _, c in checks])
            first = [("combined:any obligation violated?", comb)] + [(l, c) for l, c in items
                                                                     if kinds[l] == "sat-required"]
            if self.steps:
                pre = self.solve_portfolio(first, checks, parts)
            else:
                pre = self.solve_many(first)
            if pre.get("combined:any obligation violated?") == "unsat":
                for label, _ in checks:
                    pre[label] = "unsat"
                self.combined_unsat = True
                verdicts = pre
            elif self.steps and any(v == "sat" for l, v in pre.items() if kinds.get(l) == "check"):
                verdicts = pre      # the portfolio found a violation; undecided siblings are marked "skipped"
            else:
                rest = [(l, c) for l, c in items if l not in pre or pre[l] == "skipped"]
                verdicts = dict(pre)
                verdicts.update(self.solve_many(rest))
        else:
            verdicts = self.solve_many(items)
        if self.cross["disagree"]:
            raise Inconclusive(f"{self.name}: z3 and cvc5 disagree on {self.cross['disagree']} queries")
        results = []
        for label, cond in items:
            v = verdicts[label]
            k = kinds[label]
            if k == "sat-required":
                if v != "sat":
                    raise Inconclusive(f"{self.name}: witness {label!r} is {v}")
                if label.startswith("vacuity"):
                    m = self._model(cond)
                    if m is not None:
                        self.samples.append({"witness": "inputs satisfying the assumptions",
                                             "inputs": _short(self.replay_of(m))})
            elif k == "unsat-required":
                if v == "skipped":
                    continue      # a violation was found and is reported; this side condition was not decided
                if v != "unsat":
                    raise Inconclusive(f"{self.name}: {label} is {v}")
            else:
                if v == "skipped":
                    continue
                if v == "unknown":
                    raise Inconclusive(f"{self.name}: query {label!r} undecided")
                if v == "sat":
                    m = self._model(self.sat_part.get(label, cond))
                    if m is None:
                        raise Inconclusive(f"{self.name}: no model for sat query {label!r}")
                    lab = label[6:] if label.startswith("check:") else label
                    if label in exc_of:
                        lab = f"uncaught {type(exc_of[label]).__name__}: {exc_of[label]}"
                    results.append((lab, "sat", self.replay_of(m)))
                else:
                    results.append((label[6:] if label.startswith("check:") else label, "unsat", None))
        return results

    # ----------------------------------------------------------------------------- native replay
    def replay_vm(self, replay):
        """Engine B: deterministic re-execution of the harness in the VM with the counterexample's inputs,
        schedule and clock readings fixed; returns the labels that fail on that run"""
        sess = Session(self.name + " (replay)", self.harness, self.args, encode=tuple(e for e in self.vm.encode
                                                                                     if e != self.harness.__module__),
                       steps=self.steps, racy=self.racy, jobs=1, setup=self.setup)
        sess.vm.loop_bound = self.vm.loop_bound
        sess.vm.forced = dict(replay)
        try:
            sess.build()
        except Exception as e:
            return {"failed": [], "error": f"replay build failed: {type(e).__name__}: {e}", "reached": []}
        vm = sess.vm
        vm.flush_defs()
        failed = []

        def holds(g):
            if g is FALSE:
                return False
            sol = vm.solver
            sol.push()
            sol.add(to_z3(g))
            r = sol.check()
            sol.pop()
            return r == z3.sat
        if not holds(TRUE):
            return {"failed": [], "error": "the schedule is not executable (a scheduled thread was not enabled)", "reached": []}
        for g, label, where in vm.obligations:
            if label not in failed and holds(g):
                failed.append(label)
        err = None
        for st in sess.finals:
            if st.status == "raised" and holds(st.guard):
                err = f"uncaught {type(st.result).__name__}: {st.result}"
        for k, g in sess.sched.deadlocks:
            if holds(g):
                failed.append("no deadlock (some thread unfinished, nobody enabled, no timed waiter)")
                break
        return {"failed": failed, "error": err, "reached": [l for g, l in vm.reached if holds(g)]}

    def replay_native(self, replay):
        """run the same harness natively with the inputs of a solver model; returns failed labels"""
        if self.steps:
            return self.replay_vm(replay)
        api.native_begin(replay)
        err = None
        import contextlib
        ctx = self.native_ctx() if self.native_ctx else contextlib.nullcontext()
        try:
            with ctx:
                self.harness(*self.args)
        except api.AssumptionFailed as e:
            return {"failed": [], "error": f"assumption failed: {e}", "reached": []}
        except self.expected_exceptions:
            pass
        except Exception as e:
            err = f"uncaught {type(e).__name__}: {e}"
        r = api.native_result()
        r["error"] = err
        return r

    def stats(self):
        vm = self.vm
        return {
            "harness": self.name,
            "args": repr(self.args)[:200],
            "instructions": vm.ninstr,
            "states": vm.nstates,
            "merges": vm.nmerge,
            "solver_calls_during_build": vm.nsolver,
            "feasibility_answered_by_cached_models": vm.npool_hits,
            "build_s": round(self.build_s, 3),
            "checks": getattr(vm, "nchecks", 0),
            "native_calls": getattr(vm, "nnative", 0),
        }


def _short(d, n=60):
    if len(d) <= n:
        return d
    keys = list(d)[:n]
    r = {k: d[k] for k in keys}
    r["..."] = f"{len(d) - n} more"
    return r


def functions_encoded(vm):
    out = {}
    for key, code in vm.funcs_encoded.items():
        fn = code.co_filename
        if not (fn.startswith("/repo/") or "/lib/python3" in fn):
            continue
        try:
            lines = inspect.getsourcelines(code)[0]
            src = "".join(lines)
        except Exception:
            src = code.co_code.hex()
        out[f"{code.co_qualname} ({fn.replace('/repo/src/', '')}:{code.co_firstlineno})"] = hashlib.sha256(
            src.encode()).hexdigest()[:16]
    return out


# --------------------------------------------------------------------------------- session workers


def run_session_spec(spec):
    """executed in a worker process.  spec: dict(module, harness, args, name, options...)"""
    t0 = time.time()
    out = {"name": spec["name"], "results": [], "error": None, "inconclusive": None}
    try:
        mod = importlib.import_module(spec["module"])
        harness = getattr(mod, spec["harness"])
        setup = getattr(mod, spec["setup"]) if spec.get("setup") else None
        expected = tuple(spec.get("expected_exceptions", ()))
        sess = Session(spec["name"], harness, spec.get("args", ()), encode=spec.get("encode", ("watchdog",)),
                       use_solver=spec.get("use_solver", True), expected_exceptions=expected, setup=setup,
                       query_timeout_s=spec.get("query_timeout_s", 600), jobs=spec.get("jobs", 4),
                       cross_check=spec.get("cross_check", False),
                       native_ctx=getattr(mod, spec["native_ctx"]) if spec.get("native_ctx") else None,
                       steps=spec.get("steps", 0), racy=tuple(spec.get("racy", ())))
        if spec.get("int_union_limit"):
            from . import values as _v
            _v.LIMITS["int_union"] = spec["int_union_limit"]
        if spec.get("loop_bound"):
            sess.vm.loop_bound = spec["loop_bound"]
        sess.build()
        res = sess.discharge()
        known = [k for k in spec.get("known", []) if k.get("status") == "open"
                 and k.get("session_contains", "") in spec["name"]]

        def finish(label, replay):
            rec = {"label": label, "verdict": "sat", "replay": replay}
            nat = sess.replay_native(replay)
            rec["native_failed"] = nat["failed"]
            rec["native_error"] = nat.get("error")
            rec["reproduced"] = (label in nat["failed"]) or bool(
                nat.get("error") and label.startswith("uncaught") and nat["error"].split(":")[0] in label)
            for k in known:
                if k.get("label") == label and all(replay.get(n) in (v if isinstance(v, list) else [v])
                                                   for n, v in k.get("when", {}).items()):
                    rec["known"] = k.get("what", label)
            return rec

        def when_formula(k):
            parts = []
            for n, v in k.get("when", {}).items():
                kind, payload = sess.vm.symvars.get(n, (None, None))
                if kind != "choice":
                    return FALSE
                allowed = v if isinstance(v, list) else [v]
                parts.append(OR(*[b for b, i in payload if i in allowed]))
            return AND(*parts)
        for label, verdict, replay in res:
            if verdict != "sat":
                out["results"].append({"label": label, "verdict": verdict})
                continue
            rec = finish(label, replay)
            out["results"].append(rec)
            # a listed finding must not hide a different violation of the same obligation: ask again without it
            rounds = 0
            while rec.get("known") and rounds < 4:
                rounds += 1
                cond = sess.label_cond.get("check:" + label)
                if cond is None:
                    break
                excl = AND(*[NOT(when_formula(k)) for k in known if k.get("label") == label])
                v = sess.solve_many([(f"check:{label} (known findings excluded)", AND(cond, excl))])
                vv = list(v.values())[0]
                if vv == "unsat":
                    break
                if vv != "sat":
                    out["inconclusive"] = f"query for {label!r} without the known findings is {vv}"
                    break
                m = sess._model(AND(cond, excl))
                rec = finish(label, sess.replay_of(m))
                out["results"].append(rec)
        out["stats"] = sess.stats()
        out["queries"] = sess.queries
        out["functions"] = functions_encoded(sess.vm)
        out["samples"] = sess.samples
        out["cross"] = sess.cross
        out["solver_time_build"] = sess.vm.solver_time
        # translator validation: the witness inputs are run natively too and must not fail any check
        tv = 0
        for smp in ([] if sess.steps else sess.samples[:1]):
            if "..." not in smp["inputs"]:
                nat = sess.replay_native(smp["inputs"])
                if nat["failed"] or nat.get("error"):
                    labels = {r["label"] for r in out["results"] if r["verdict"] == "sat"}
                    if not (set(nat["failed"]) <= labels):
                        out["inconclusive"] = f"VM and native run disagree on witness inputs {smp['inputs']}: {nat}"
                tv += 1
        out["traces_validated"] = tv
    except Inconclusive as e:
        out["inconclusive"] = str(e)
    except Unsupported as e:
        out["inconclusive"] = f"unsupported construct: {e}"
    except Exception as e:
        out["inconclusive"] = f"harness error: {type(e).__name__}: {e}"
        out["traceback"] = traceback.format_exc()
    out["wall_s"] = round(time.time() - t0, 3)
    return json.loads(json.dumps(_strkeys(out), default=str))


def _strkeys(x):
    if isinstance(x, dict):
        return {(k if isinstance(k, (str, int, float, bool)) or k is None else repr(k)): _strkeys(v) for k, v in x.items()}
    if isinstance(x, (list, tuple)):
        return [_strkeys(v) for v in x]
    return x


def run_sessions(specs, workers=None):
    for sp in specs:
        sp.setdefault("known", load_known(sp.get("property") or ""))
    if workers is None:
        workers = min(len(specs), max(1, NCPU // 3))
    if len(specs) == 1 or workers == 1:
        return [run_session_spec(s) for s in specs]
    ctx = multiprocessing.get_context("fork")
    with cf.ProcessPoolExecutor(max_workers=workers, mp_context=ctx) as ex:
        return list(ex.map(run_session_spec, specs))


class Report:
    """accumulates results of all sessions of one property check and finishes the run"""

    def __init__(self, pid, tier, level="model_checking"):
        self.pid = pid
        self.tier = tier
        self.level = level
        self.t0 = time.time()
        self.session_results = []
        self.violations = []  # (label, replay_path, desc)
        self.known_hits = []
        self.traces_validated = 0
        self.assumptions = []
        self.bounds = {}
        self.outside = []
        self.stubs = []
        self.extra = {}
        self.samples = []
        self.seed = int(os.environ.get("VERIF_SEED", "0") or 0)
        self.known = load_known(pid)
        self.inconclusive = None
        self.functions = {}
        self.nviol = 0
        import glob
        for old in glob.glob(os.path.join(REPLAY_DIR, f"{pid}-*.json")):
            try:
                os.unlink(old)
            except OSError:
                pass

    def add_results(self, results, describe=None):
        """fold worker outputs in; sat results become violations (after the native replay check)"""
        for r in results:
            self.session_results.append(r)
            if r.get("inconclusive"):
                if r.get("traceback"):
                    sys.stderr.write(r["traceback"])
                self.inconclusive = self.inconclusive or f"{r['name']}: {r['inconclusive']}"
                continue
            self.functions.update(r.get("functions", {}))
            self.samples.extend(r.get("samples", [])[:1])
            self.traces_validated += r.get("traces_validated", 0)
            for rec in r["results"]:
                if rec["verdict"] != "sat":
                    continue
                self.traces_validated += 1
                if not rec.get("reproduced"):
                    self.inconclusive = self.inconclusive or (
                        f"{r['name']}: counterexample for {rec['label']!r} did not reproduce natively "
                        f"(native failed={rec.get('native_failed')}, error={rec.get('native_error')})")
                    self._write_replay(r, rec, "-unreproduced")
                    continue
                desc = describe(r, rec) if describe else rec["label"]
                if rec.get("known"):
                    if rec["known"] not in self.known_hits:
                        self.known_hits.append(rec["known"])
                    continue
                path = self._write_replay(r, rec, "")
                self.violations.append((rec["label"], path, desc))

    def _known_match(self, r, rec):
        for k in self.known:
            if k.get("status") != "open":
                continue
            if k.get("label") == rec["label"]:
                return k.get("what", rec["label"])
        return None

    def _write_replay(self, r, rec, suffix):
        os.makedirs(REPLAY_DIR, exist_ok=True)
        self.nviol += 1
        path = os.path.join(REPLAY_DIR, f"{self.pid}-{self.nviol}{suffix}.json")
        with open(path, "w") as f:
            json.dump({"property": self.pid, "session": r["name"], "label": rec["label"], "inputs": rec["replay"],
                       "native_failed": rec.get("native_failed"), "native_error": rec.get("native_error")}, f,
                      indent=1, default=str)
        return path

    def finish(self):
        wall = time.time() - self.t0
        queries = {"unsat": 0, "sat": 0, "unknown": 0}
        solver_time = 0.0
        states = trans = 0
        cross = {"agree": 0, "disagree": 0, "cvc5_unknown": 0}
        sess_stats = []
        for r in self.session_results:
            for q in r.get("queries", []):
                queries[q["verdict"] if q["verdict"] in queries else "unknown"] += 1
                solver_time += q["seconds"]
            solver_time += r.get("solver_time_build", 0)
            st = r.get("stats")
            if st:
                states += st["states"]
                trans += st["instructions"]
                st = dict(st)
                st["wall_s"] = r.get("wall_s")
                sess_stats.append(st)
            for k in cross:
                cross[k] += r.get("cross", {}).get(k, 0)
        states += self.extra.pop("extra_states", 0)
        trans += self.extra.pop("extra_transitions", 0)
        cov = {
            "states": max(states, 1),
            "transitions": max(trans, 1),
            "traces_validated_against_impl": self.traces_validated,
            "samples": self.samples[:6] or [{"note": "no sample recorded"}],
            "functions_encoded": self.functions,
            "bounds": self.bounds,
            "queries": queries,
            "solver_time_s": round(solver_time, 3),
            "solver": f"z3 {z3.get_version_string()} (queries: {Z3_BIN} processes on SMT-LIB2 exported from the encoding)",
            "second_solver": cross,
            "outside_bounds": self.outside,
            "stubs": self.stubs,
            "sessions": sess_stats,
            "known_findings_reported": list(self.known_hits),
        }
        cov.update(self.extra)
        ev = {
            "property_id": self.pid,
            "tier": self.tier,
            "seed": self.seed,
            "level": self.level,
            "coverage": cov,
            "assumptions": self.assumptions,
            "wall_s": round(wall, 3),
            "violations": len(self.violations),
        }
        os.makedirs(EVID_DIR, exist_ok=True)
        with open(os.path.join(EVID_DIR, f"{self.pid}.json"), "w") as f:
            json.dump(ev, f, indent=1, default=str)
        for k in self.known_hits:
            print(f"KNOWN-FINDING: property={self.pid} {k}")
        if self.violations:
            for label, path, desc in self.violations:
                print(f"VIOLATION property={self.pid} replay={path}")
                print(f"  {desc}")
            return 1
        if self.inconclusive:
            print(f"INCONCLUSIVE property={self.pid} reason={self.inconclusive}")
            return 2
        print(f"OK property={self.pid} tier={self.tier} queries={queries} wall={wall:.1f}s")
        return 0


def load_known(pid):
    out = []
    if os.path.exists(KNOWN_FILE):
        for line in open(KNOWN_FILE):
            line = line.strip()
            if not line or line.startswith("#"):
                continue
            rec = json.loads(line)
            if rec.get("property") == pid:
                out.append(rec)
    return out


def run_check(pid, tier, fn, level="model_checking"):
    """wrapper used by every property module: fn(report) performs the check"""
    rep = Report(pid, tier, level)
    try:
        fn(rep)
    except Inconclusive as e:
        rep.inconclusive = str(e)
    except Unsupported as e:
        rep.inconclusive = f"unsupported construct: {e}"
    except Exception as e:
        traceback.print_exc()
        rep.inconclusive = f"harness error: {type(e).__name__}: {e}"
    return rep.finish()
