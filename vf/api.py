"""Harness API.  The same harness function runs

  * symbolically inside the VM (these functions are intercepted by models: inputs become solver
    variables, `check` becomes a proof obligation), and
  * natively under CPython (inputs are read from a replay record produced from a solver model, or
    from a test vector), which is how counterexamples are replayed against the real code.
"""
from __future__ import annotations

import z3

from .bexp import TRUE, FALSE, AND, OR, NOT, IMPLIES, var, fresh, atom, to_z3
from .values import Sym, Union, VList, VSet, VObj, Unsupported, mk_union, truth, sym_bool as _sb, is_concrete


class ReplayMismatch(Exception):
    pass


class AssumptionFailed(Exception):
    pass


_REPLAY = None  # dict name -> value (native mode)
_FAILED = []
_REACHED = []
_LOG = []


def native_begin(replay):
    global _REPLAY
    _REPLAY = dict(replay)
    _FAILED.clear()
    _REACHED.clear()
    _LOG.clear()


def native_result():
    return {"failed": list(_FAILED), "reached": list(_REACHED), "log": list(_LOG)}


def _get(name, default=None):
    if _REPLAY is None:
        raise ReplayMismatch("harness API used natively without a replay record")
    if name not in _REPLAY:
        if default is not None:
            return default
        raise ReplayMismatch(f"replay record has no value for {name!r}")
    return _REPLAY[name]


def sym_bool(name):
    return bool(_get(name, False))


def sym_int(name, lo=None, hi=None):
    v = int(_get(name, lo if lo is not None else 0))
    if (lo is not None and v < lo) or (hi is not None and v > hi):
        raise AssumptionFailed(f"{name}={v} outside [{lo},{hi}]")
    return v


def sym_id(name, lo, hi):
    """symbolic identifier: only equality is meaningful (bit-vector encoded in the VM)"""
    return sym_int(name, lo, hi)


def sym_real(name, lo=None, hi=None):
    v = _get(name, lo if lo is not None else 0)
    if isinstance(v, str):
        from fractions import Fraction
        v = float(Fraction(v))
    return v


def choice(name, values):
    values = list(values)
    i = int(_get(name, 0))
    return values[i]


def assume(cond):
    if not cond:
        raise AssumptionFailed("assumption violated in native replay")


def check(cond, label):
    if not cond:
        _FAILED.append(label)


def reach(label):
    _REACHED.append(label)


def log(*items):
    _LOG.append(items)


def join_all(threads):
    """wait for all threads (one scheduling point in the VM instead of one per thread)"""
    for t in threads:
        t.join()


def block_forever():
    """Engine B: the calling thread legitimately blocks for good here (e.g. a reader waiting for more input)"""
    import threading
    threading.Event().wait()


def step():
    """Engine B: index of the scheduler step in which the caller's current block runs (a logical clock)"""
    return 0


def is_symbolic():
    return False


# --------------------------------------------------------------------------------------- VM models


def install(vm):
    vm.reached = []
    vm.logs = []

    def forced(name):
        f = getattr(vm, "forced", None)
        if f is not None and name in f:
            return True, f[name]
        return False, None

    def m_sym_bool(vm, s, args, kw):
        name = args[0]
        ok, v = forced(name)
        if ok:
            return bool(v)
        b = var(name)
        vm.symvars[name] = ("bool", b)
        return _sb(b)

    def m_sym_int(vm, s, args, kw):
        name = args[0]
        ok, v = forced(name)
        if ok:
            return int(v)
        lo = args[1] if len(args) > 1 else kw.get("lo")
        hi = args[2] if len(args) > 2 else kw.get("hi")
        x = z3.Int(name)
        vm.symvars[name] = ("int", x)
        if lo is not None:
            vm.assume(atom(x >= lo))
        if hi is not None:
            vm.assume(atom(x <= hi))
        return Sym("int", x)

    def m_sym_id(vm, s, args, kw):
        name, lo, hi = args
        ok, v = forced(name)
        if ok:
            return int(v)
        bits = max(1, int(hi).bit_length())
        x = z3.BitVec(name, bits)
        vm.symvars[name] = ("bv", x)
        vm.assume(atom(z3.ULE(lo, x)))
        vm.assume(atom(z3.ULE(x, hi)))
        return Sym("bv", x)

    def m_sym_real(vm, s, args, kw):
        name = args[0]
        lo = args[1] if len(args) > 1 else kw.get("lo")
        hi = args[2] if len(args) > 2 else kw.get("hi")
        x = z3.Real(name)
        vm.symvars[name] = ("real", x)
        if lo is not None:
            vm.assume(atom(x >= lo))
        if hi is not None:
            vm.assume(atom(x <= hi))
        return Sym("real", x)

    def m_choice(vm, s, args, kw):
        name, values = args
        from . import containers as C
        items = C.iter_items(vm, s, values)
        if any(p is not TRUE for p, _ in items):
            raise Unsupported("choice() over a guarded sequence")
        vals = [v for _, v in items]
        if not vals:
            raise Unsupported("choice() over an empty sequence")
        ok, v = forced(name)
        if ok:
            return vals[int(v)]
        if len(vals) == 1:
            vm.symvars[name] = ("choice", [(TRUE, 0)])
            return vals[0]
        grp = ("choice", name)
        bs = [var(f"{name}#{i}", grp=grp) for i in range(len(vals))]
        vm.symvars[name] = ("choice", list(zip(bs, range(len(vals)))))
        zs = [to_z3(b) for b in bs]
        vm.solver.add(z3.Or(*zs))
        for i in range(len(zs)):
            for j in range(i + 1, len(zs)):
                vm.solver.add(z3.Or(z3.Not(zs[i]), z3.Not(zs[j])))
        vm.choice_groups.append((name, bs))
        return mk_union(list(zip(bs, vals)))

    def m_assume(vm, s, args, kw):
        c = truth(args[0])
        vm.assume(IMPLIES(s.guard, c))
        if c is not TRUE:
            # the excluded worlds leave this state for good (values computed there would be garbage)
            from fractions import Fraction
            from .vm import _fork_ids
            s.orig = s.orig + ((s.guard, Fraction(1, 2), next(_fork_ids)),)
            s.guard = AND(s.guard, c)
            vm.lost = True
        return None

    def m_check(vm, s, args, kw):
        c = truth(args[0])
        label = args[1] if len(args) > 1 else kw.get("label", "check")
        bad = AND(s.guard, NOT(c))
        if bad is not FALSE:
            vm.obligations.append((bad, label, s.where()))
        vm.nchecks = getattr(vm, "nchecks", 0) + 1
        return None

    def m_reach(vm, s, args, kw):
        vm.reached.append((s.guard, args[0]))
        return None

    def m_log(vm, s, args, kw):
        vm.logs.append((s.guard, tuple(args)))
        return None

    def m_is_symbolic(vm, s, args, kw):
        return True

    def lift_name(fn):
        """the variable name may be a Union (e.g. derived from a loop index merged across states)"""
        def m(vm, s, args, kw):
            nm = args[0]
            if type(nm) is Union:
                return mk_union([(g, fn(vm, s, [x] + list(args[1:]), kw)) for g, x in nm.alts])
            return fn(vm, s, args, kw)
        return m
    m_sym_bool, m_sym_int, m_sym_real = lift_name(m_sym_bool), lift_name(m_sym_int), lift_name(m_sym_real)
    vm.register_model(sym_bool, m_sym_bool)
    vm.register_model(sym_int, m_sym_int)
    vm.register_model(sym_real, m_sym_real)
    vm.register_model(sym_id, m_sym_id)
    vm.register_model(choice, m_choice)
    vm.register_model(assume, m_assume)
    vm.register_model(check, m_check)
    vm.register_model(reach, m_reach)
    vm.register_model(log, m_log)
    vm.register_model(is_symbolic, m_is_symbolic)
    vm.register_model(step, lambda vm, s, a, k: (vm.sched.k if vm.sched is not None else 0))

    def m_block_forever(vm, s, args, kw):
        from .vm import Park
        if vm.sched is None:
            raise Unsupported("block_forever() outside the scheduler")
        raise Park(("forever",))
    vm.register_model(block_forever, m_block_forever)

    def m_join_all(vm, s, args, kw):
        from . import containers as C
        ths = [v for _, v in C.iter_items(vm, s, args[0])]
        if vm.sched is not None:
            return vm.sched.join_all(vm, s, ths)
        for th in ths:
            th.set("_vt_finished", True, s.guard)
        return None
    vm.register_model(join_all, m_join_all)
