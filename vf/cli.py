"""entry point:  python -m vf.cli <property-id> [--tier quick|thorough]"""
from __future__ import annotations

import argparse
import importlib
import os
import sys


def _own_group():
    """workers and solver children die with this process when it is timed out"""
    import signal
    try:
        os.setpgrp()
    except OSError:
        return

    def bye(signum, frame):
        try:
            os.killpg(os.getpgid(0), signal.SIGKILL)
        finally:
            os._exit(124)
    signal.signal(signal.SIGTERM, bye)


def main():
    _own_group()
    ap = argparse.ArgumentParser()
    ap.add_argument("pid")
    ap.add_argument("--tier", default=os.environ.get("VERIF_TIER", "quick"), choices=["quick", "thorough"])
    ap.add_argument("--replay", default=None)
    a = ap.parse_args()
    pid = a.pid.upper()
    from . import driver
    try:
        mod = importlib.import_module(f"vf.props.{pid.lower()}")
    except ImportError as e:
        print(f"INCONCLUSIVE property={pid} reason=no check module ({e})")
        return 2
    if a.replay:
        return mod.replay(a.replay)
    level = getattr(mod, "LEVEL", "model_checking")
    return driver.run_check(pid, a.tier, mod.check, level)


if __name__ == "__main__":
    sys.exit(main())
