"""Hash-consed Boolean formula layer used for path guards.

Guards are built by the symbolic VM at a very high rate; going through the z3 Python API
for each And/Or/Not is slow and gives no structural simplification.  This module keeps
Boolean structure in light Python nodes (interned, so identity == structural equality),
applies cheap local simplifications that matter for state merging (diamond re-merge,
complement detection, absorption, mutual-exclusion groups of one-hot choice variables), and
converts to z3 only when a solver query is issued.

Atoms are either named propositional variables or opaque z3 Boolean terms (arithmetic
comparisons over the symbolic scalars).
"""
from __future__ import annotations

import itertools
import z3

_UNSET = object()
IMP_CAP = 64
USE_IMP = False  # switched on by Engine B (no solver pruning while the formula is built)
_intern: dict = {}
_counter = itertools.count(1)


class B:
    __slots__ = ("kind", "args", "id", "payload", "grp", "_z", "sz", "defn", "gset", "_imp", "__weakref__")

    def __init__(self, kind, args=(), payload=None, grp=None):
        self.kind = kind  # 'T','F','v','n','a','o'
        self.args = args
        self.payload = payload
        self.grp = grp
        self.id = next(_counter)
        self._z = None
        sz = 1
        for a in args:
            sz += a.sz
        self.sz = sz if sz < 100000 else 100000
        self._imp = _UNSET
        self.defn = None  # for definitional variables: the formula they name
        self.gset = None  # for disjunctions of positive members of one one-hot group: (group, frozenset(ids))
        if kind == "o":
            g0 = args[0].grp if args[0].kind == "v" else None
            if g0 is not None and all(a.kind == "v" and a.grp == g0 for a in args):
                self.gset = (g0, frozenset(a.id for a in args))

    def __repr__(self):
        return show(self)

    def __bool__(self):
        raise TypeError("B used as Python bool; use is_true()/is_false()")


namer = None  # set by the VM: callback that replaces a large formula by a definitional variable
import os as _os
NAME_THRESHOLD = int(_os.environ.get('VF_NAME_T', '48'))


def compact(g: "B") -> "B":
    if namer is not None and g.sz > NAME_THRESHOLD and size(g, NAME_THRESHOLD + 1) > NAME_THRESHOLD:
        return namer(g)
    return g


TRUE = B("T")
FALSE = B("F")


def is_true(x):
    return x is TRUE


def is_false(x):
    return x is FALSE


def const(b: bool) -> B:
    return TRUE if b else FALSE


def var(name: str, grp=None) -> B:
    k = ("v", name)
    n = _intern.get(k)
    if n is None:
        n = B("v", (), payload=name, grp=grp)
        _intern[k] = n
    return n


_fresh = itertools.count(1)


def fresh(prefix: str = "b", grp=None) -> B:
    return var(f"{prefix}!{next(_fresh)}", grp=grp)


_atoms: dict = {}


def atom(zexpr) -> B:
    """Wrap a z3 Boolean term (kept alive: z3 recycles AST ids after GC)."""
    if z3.is_true(zexpr):
        return TRUE
    if z3.is_false(zexpr):
        return FALSE
    if z3.is_not(zexpr):
        return NOT(atom(zexpr.arg(0)))
    k = zexpr.get_id()
    hit = _atoms.get(k)
    if hit is not None and hit[1].eq(zexpr):
        return hit[0]
    n = B("v", (), payload=zexpr)
    _atoms[k] = (n, zexpr)
    return n


def imp(x: "B"):
    """assignments that x implies (an under-approximation): dict key -> value, or None if x is contradictory.
    Keys: ('v', id) -> bool for plain variables/atoms, ('g', group) -> member id for one-hot groups.
    Lets AND() refute conjunctions whose operands hide their structure behind definitional variables."""
    r = x._imp
    if r is not _UNSET:
        return r
    global _IMP_DEPTH
    if _IMP_DEPTH > 40:
        return {}       # chains of definitions are followed to a bounded depth ("implies nothing" is always sound)
    _IMP_DEPTH += 1
    try:
        return _imp_compute(x)
    finally:
        _IMP_DEPTH -= 1


_IMP_DEPTH = 0


def _imp_compute(x: B):
    k = x.kind
    if k == "T":
        r = {}
    elif k == "F":
        r = None
    elif k == "v":
        if x.defn is not None:
            r = imp(x.defn)
            if r is not None and len(r) < IMP_CAP:
                r = dict(r)
                r[("v", x.id)] = True
        elif x.grp is not None:
            r = {("g", x.grp): x.id}
        else:
            r = {("v", x.id): True}
    elif k == "n":
        y = x.args[0]
        if y.kind == "v":
            if y.defn is not None:
                r = _imp_neg(y.defn, 3)
                if r is not None and len(r) < IMP_CAP:
                    r = dict(r)
                    r[("v", y.id)] = False
            elif y.grp is not None:
                r = {}
            else:
                r = {("v", y.id): False}
        else:
            r = _imp_neg(y, 3)
    elif k == "a":
        r = {}
        for a in x.args:
            ia = imp(a)
            r = _imp_join(r, ia)
            if r is None:
                break
    else:  # or
        r = _UNSET
        for a in x.args:
            ia = imp(a)
            if ia is None:
                continue  # a contradictory disjunct contributes nothing
            r = ia if r is _UNSET else {kk: vv for kk, vv in r.items() if ia.get(kk, _UNSET) == vv}
            if not r:
                break
        if r is _UNSET:
            r = None
    x._imp = r
    return r


def _imp_join(r, ia):
    if r is None or ia is None:
        return None
    if not ia:
        return r
    if not r:
        return ia
    small, big = (ia, r) if len(ia) < len(r) else (r, ia)
    for kk, vv in small.items():
        ov = big.get(kk, _UNSET)
        if ov is not _UNSET and ov != vv:
            return None
    if len(big) >= IMP_CAP:
        return big
    out = dict(big)
    for kk, vv in small.items():
        if len(out) >= IMP_CAP:
            break
        out[kk] = vv
    return out


def _imp_neg(y, depth):
    """what NOT(y) implies"""
    if depth == 0:
        return {}
    if y.kind == "o":
        r = {}
        for a in y.args:
            r = _imp_join(r, imp(NOT(a)) if a.kind in ("v", "n") else _imp_neg(a, depth - 1))
            if r is None:
                return None
        return r
    if y.kind == "a":
        r = _UNSET
        for a in y.args:
            ia = imp(NOT(a)) if a.kind in ("v", "n") else _imp_neg(a, depth - 1)
            if ia is None:
                continue
            r = ia if r is _UNSET else {kk: vv for kk, vv in r.items() if ia.get(kk, _UNSET) == vv}
            if not r:
                break
        return {} if r is _UNSET else r
    if y.kind == "n":
        return imp(y.args[0])
    if y.kind == "v":
        return imp(NOT(y))
    if y.kind == "T":
        return None
    return {}


def NOT(x: B) -> B:
    if x is TRUE:
        return FALSE
    if x is FALSE:
        return TRUE
    if x.kind == "n":
        return x.args[0]
    k = ("n", x.id)
    n = _intern.get(k)
    if n is None:
        n = B("n", (x,))
        _intern[k] = n
    return n


def _mk(kind, items):
    items = tuple(sorted(items, key=lambda n: n.id))
    k = (kind,) + tuple(n.id for n in items)
    n = _intern.get(k)
    if n is None:
        n = B(kind, items)
        _intern[k] = n
    return n


def AND(*xs) -> B:
    if len(xs) == 1 and isinstance(xs[0], (list, tuple)):
        xs = xs[0]
    items = {}
    stack = list(xs)
    while stack:
        x = stack.pop()
        if x is TRUE:
            continue
        if x is FALSE:
            return FALSE
        if x.kind == "a":
            stack.extend(x.args)
        else:
            items[x.id] = x
    if not items:
        return TRUE
    if len(items) == 1:
        return next(iter(items.values()))
    groups = {}
    drop = []
    add = []
    for x in items.values():
        if x.kind == "n":
            y = x.args[0]
            if y.id in items:
                return FALSE
            if y.kind == "a":
                # x = not(and(T)):  T subset of items -> false ; T partly in items -> shrink
                rest = [t for t in y.args if t.id not in items]
                if not rest:
                    return FALSE
                if len(rest) < len(y.args):
                    drop.append(x.id)
                    add.append(NOT(_mk("a", rest) if len(rest) > 1 else rest[0]))
            elif y.kind == "o":
                # not(or(T)) with some t in items -> false
                for t in y.args:
                    if t.id in items:
                        return FALSE
        elif x.kind == "v" and x.grp is not None:
            if x.grp in groups:
                return FALSE
            groups[x.grp] = x
        elif x.kind == "o":
            # or(T) with some t in items is implied -> drop ; members contradicted -> shrink
            for t in x.args:
                if t.id in items:
                    drop.append(x.id)
                    break
    # disjunctions over one one-hot group: intersect them with each other and with a positive member
    gsets = None
    for x in items.values():
        if x.kind == "o" and x.gset is not None:
            if gsets is None:
                gsets = {}
            gsets.setdefault(x.gset[0], []).append(x)
    if gsets:
        for grp, ors in gsets.items():
            pos = groups.get(grp)
            if pos is not None:
                for o in ors:
                    if pos.id not in o.gset[1]:
                        return FALSE
                    if o.id not in drop:
                        drop.append(o.id)
            elif len(ors) > 1:
                common = ors[0].gset[1]
                for o in ors[1:]:
                    common = common & o.gset[1]
                if not common:
                    return FALSE
                for o in ors:
                    drop.append(o.id)
                members = [a for a in ors[0].args if a.id in common]
                add.append(members[0] if len(members) == 1 else _mk("o", members))
    if drop or add:
        for d in drop:
            items.pop(d, None)
        return AND(*items.values(), *add)
    # one-hot group: positive member excludes... (negated members of the same group are implied)
    if groups:
        implied = [x.id for x in items.values()
                   if x.kind == "n" and x.args[0].kind == "v" and x.args[0].grp in groups]
        if implied:
            for d in implied:
                items.pop(d)
            if len(items) == 1:
                return next(iter(items.values()))
    if not USE_IMP:
        return _mk("a", items.values())
    # implied-assignment summaries refute conjunctions that are contradictory behind definitional variables
    acc = {}
    for x in items.values():
        acc = _imp_join(acc, imp(x))
        if acc is None:
            return FALSE
    n = _mk("a", items.values())
    if n._imp is _UNSET:
        n._imp = acc
    return n


def OR(*xs) -> B:
    if len(xs) == 1 and isinstance(xs[0], (list, tuple)):
        xs = xs[0]
    items = {}
    stack = list(xs)
    while stack:
        x = stack.pop()
        if x is FALSE:
            continue
        if x is TRUE:
            return TRUE
        if x.kind == "o":
            stack.extend(x.args)
        else:
            items[x.id] = x
    if not items:
        return FALSE
    if len(items) == 1:
        return next(iter(items.values()))
    for x in items.values():
        if x.kind == "n" and x.args[0].id in items:
            return TRUE
    # absorption and diamond merge among conjunctions
    lst = list(items.values())
    changed = len(lst) <= 10
    while changed and len(lst) > 1:
        changed = False
        n = len(lst)
        for i in range(n):
            a = lst[i]
            sa = _conj_ids(a)
            for j in range(i + 1, n):
                b = lst[j]
                sb = _conj_ids(b)
                if sa.keys() <= sb.keys():  # a absorbs b
                    lst.pop(j)
                    changed = True
                    break
                if sb.keys() <= sa.keys():
                    lst.pop(i)
                    changed = True
                    break
                da = sa.keys() - sb.keys()
                db = sb.keys() - sa.keys()
                if len(da) == 1 and len(db) == 1:
                    x = sa[next(iter(da))]
                    y = sb[next(iter(db))]
                    if NOT(x) is y:
                        common = [sa[k] for k in sa.keys() & sb.keys()]
                        m = AND(*common)
                        lst.pop(j)
                        lst.pop(i)
                        if m is TRUE:
                            return TRUE
                        lst.append(m)
                        changed = True
                        break
                elif len(da) == 1 and len(db) >= 1:
                    # a = S+x , b = S+T  with not(x) in ... : (S&x) | (S&~x&R) = S&(x|R)  (skip: rare)
                    pass
            if changed:
                break
    if len(lst) == 1:
        return lst[0]
    items = {x.id: x for x in lst}
    if len(items) == 1:
        return next(iter(items.values()))
    return _mk("o", items.values())


def _conj_ids(x: B) -> dict:
    if x.kind == "a":
        return {t.id: t for t in x.args}
    return {x.id: x}


def ITE(c: B, a: B, b: B) -> B:
    if c is TRUE:
        return a
    if c is FALSE:
        return b
    if a is b:
        return a
    return OR(AND(c, a), AND(NOT(c), b))


def IMPLIES(a: B, b: B) -> B:
    return OR(NOT(a), b)


def IFF(a: B, b: B) -> B:
    if a is b:
        return TRUE
    return OR(AND(a, b), AND(NOT(a), NOT(b)))


def to_z3(x: B):
    """Iterative memoised conversion."""
    if x._z is not None:
        return x._z
    stack = [x]
    while stack:
        n = stack[-1]
        if n._z is not None:
            stack.pop()
            continue
        if n.kind == "T":
            n._z = z3.BoolVal(True)
        elif n.kind == "F":
            n._z = z3.BoolVal(False)
        elif n.kind == "v":
            n._z = z3.Bool(n.payload) if isinstance(n.payload, str) else n.payload
        else:
            pending = [a for a in n.args if a._z is None]
            if pending:
                stack.extend(pending)
                continue
            zs = [a._z for a in n.args]
            if n.kind == "n":
                n._z = z3.Not(zs[0])
            elif n.kind == "a":
                n._z = z3.And(*zs)
            else:
                n._z = z3.Or(*zs)
        stack.pop()
    return x._z


def size(x: B, limit=10**9) -> int:
    seen = set()
    stack = [x]
    while stack:
        n = stack.pop()
        if n.id in seen:
            continue
        seen.add(n.id)
        if len(seen) > limit:
            return len(seen)
        stack.extend(n.args)
    return len(seen)


def show(x: B, depth=4) -> str:
    if x.kind == "T":
        return "T"
    if x.kind == "F":
        return "F"
    if x.kind == "v":
        return x.payload if isinstance(x.payload, str) else "{" + str(x.payload) + "}"
    if depth == 0:
        return "..."
    if x.kind == "n":
        return "!" + show(x.args[0], depth - 1)
    sep = " & " if x.kind == "a" else " | "
    return "(" + sep.join(show(a, depth - 1) for a in x.args) + ")"


def evaluate(x: B, model) -> bool:
    """Evaluate under a z3 model (model completion on)."""
    return bool(z3.is_true(model.eval(to_z3(x), model_completion=True)))
