"""Descriptor table + minimal inotify kernel, written as ordinary Python that the VM interprets.
Bound to the library's seams (inotify_init/add_watch/rm_watch, os.pipe/read/write/close, select.poll,
ctypes.get_errno, os.path.isdir/islink, os.walk) by install(); the same seams the project's own mocked test
(tests/test_inotify_c.py::test_late_double_deletion) patches."""
from __future__ import annotations

import errno
import threading

from . import api


class Poller:
    def __init__(self, kernel):
        self.kernel = kernel
        self.fds = []

    def register(self, fd, mask):
        self.kernel.use(fd, "poll.register")
        self.fds.append(fd)

    def poll(self, timeout=None):
        k = self.kernel
        for fd in self.fds:
            k.use(fd, "poll")
        with k.cv:
            while not (k.readable | k.killed):
                k.cv.wait()
            out = []
            if k.readable:
                out.append((k.inotify_fd, 1))
            if k.killed:
                out.append((k.kill_r, 1))
        return out


class Kernel:
    def __init__(self, dirs=(b"/r",)):
        self.state = {}          # fd -> True while open
        self.closed_count = {}   # fd -> how often it was closed
        self.next_fd = 3
        self.inotify_fd = -1
        self.kill_r = -1
        self.kill_w = -1
        self.readable = False
        self.killed = False
        self.errno = 0
        self.cv = threading.Condition()
        self.dirs = list(dirs)
        self.watches = {}        # path -> wd
        self.next_wd = 1
        self.nadd = 0
        self.fail_add_at = -1    # index of the add_watch call that fails
        self.fail_errno = errno.ENOSPC
        self.fail_init = False
        self.root_deleted = False

    # -- descriptor bookkeeping
    def new_fd(self):
        fd = self.next_fd
        self.next_fd = self.next_fd + 1
        self.state[fd] = True
        self.closed_count[fd] = 0
        return fd

    def use(self, fd, what):
        ok = (fd in self.state) and self.state[fd]
        api.check(ok, "no descriptor is read, polled, written or used after it was closed")

    def close(self, fd):
        ok = (fd in self.state) and self.state[fd]
        api.check(ok, "no descriptor is closed twice")
        if fd in self.state:
            self.state[fd] = False
            self.closed_count[fd] = self.closed_count[fd] + 1

    def open_fds(self):
        n = 0
        for fd in self.state:
            if self.state[fd]:
                n += 1
        return n

    # -- the seams
    def inotify_init(self):
        if self.fail_init:
            self.errno = errno.EMFILE
            return -1
        self.inotify_fd = self.new_fd()
        return self.inotify_fd

    def pipe(self):
        self.kill_r = self.new_fd()
        self.kill_w = self.new_fd()
        return (self.kill_r, self.kill_w)

    def add_watch(self, fd, path, mask):
        self.use(fd, "inotify_add_watch")
        i = self.nadd
        self.nadd = self.nadd + 1
        if i == self.fail_add_at:
            self.errno = self.fail_errno
            return -1
        if path not in self.dirs:
            self.errno = errno.ENOENT
            return -1
        if path in self.watches:
            return self.watches[path]
        wd = self.next_wd
        self.next_wd = self.next_wd + 1
        self.watches[path] = wd
        return wd

    def rm_watch(self, fd, wd):
        self.use(fd, "inotify_rm_watch")
        with self.cv:
            self.readable = True     # the kernel queues IN_IGNORED for the removed watch
            self.cv.notify_all()
        return 0

    def read(self, fd, size):
        self.use(fd, "read")
        with self.cv:
            self.readable = False
        if self.root_deleted:
            # the watched root was removed: IN_DELETE_SELF then IN_IGNORED for its watch descriptor
            self.root_deleted = False
            import struct
            return struct.pack("iIII", 1, 0x400, 0, 0) + struct.pack("iIII", 1, 0x8000, 0, 0)
        return b""

    def write(self, fd, data):
        self.use(fd, "write")
        with self.cv:
            self.killed = True
            self.cv.notify_all()
        return len(data)

    def get_errno(self):
        return self.errno

    def isdir(self, path):
        return path in self.dirs

    def walk(self, top, followlinks=False):
        out = []
        subs = []
        for d in self.dirs:
            if d != top and d.startswith(top + b"/") and d[len(top) + 1:].count(b"/") == 0:
                subs.append(d[len(top) + 1:])
        out.append((top, subs, []))
        for s in subs:
            for x in self.walk(top + b"/" + s):
                out.append(x)
        return out

    def data_arrives(self):
        with self.cv:
            self.readable = True
            self.cv.notify_all()


def current():
    raise RuntimeError("only meaningful inside the VM")


def install(vm):
    """bind the library's kernel seams to the Kernel object registered with use_kernel()"""
    import ctypes
    import os
    import select
    import watchdog.observers.inotify_c as ic
    from .vm import _Pending

    def use_kernel_model(vm, s, args, kw):
        vm.kernel = args[0]
        return None
    vm.register_model(use_kernel, use_kernel_model)

    def bind(target, method, nargs=None):
        def m(vm, s, args, kw):
            k = vm.kernel
            fn = getattr(Kernel, method)
            a = list(args) if nargs is None else list(args)[:nargs]
            return _Pending(vm.do_call(s, fn, [k] + a, dict(kw) if nargs is None else {}, ("push",)))
        vm.register_model(target, m)
    bind(ic.inotify_init, "inotify_init")
    bind(ic.inotify_add_watch, "add_watch")
    bind(ic.inotify_rm_watch, "rm_watch")
    bind(os.pipe, "pipe")
    bind(os.close, "close")
    bind(os.read, "read")
    bind(os.write, "write")
    bind(ctypes.get_errno, "get_errno")
    bind(os.path.isdir, "isdir", 1)
    bind(os.walk, "walk", 1)
    vm.register_model(os.path.islink, lambda vm, s, a, k: False)

    def poll_model(vm, s, args, kw):
        return _Pending(vm.construct(s, Poller, [vm.kernel], {}, ("push",)))
    vm.register_model(select.poll, poll_model)
    if "vf.kernelmodel" not in vm.encode:
        vm.encode = vm.encode + ("vf.kernelmodel",)


_CUR = {}


def use_kernel(k):
    """make k the kernel seen by the library (the VM intercepts this call; natively see native_ctx)"""
    _CUR["k"] = k
    return None


def native_ctx():
    """the same seams patched natively (for replaying counterexamples against the real code under CPython)"""
    import contextlib
    from unittest import mock

    @contextlib.contextmanager
    def ctx():
        K = lambda: _CUR["k"]  # noqa: E731
        with contextlib.ExitStack() as st:
            P = lambda *a, **k: st.enter_context(mock.patch(*a, **k))  # noqa: E731
            P("watchdog.observers.inotify_c.inotify_init", lambda: K().inotify_init())
            P("watchdog.observers.inotify_c.inotify_add_watch", lambda fd, path, mask: K().add_watch(fd, path, mask))
            P("watchdog.observers.inotify_c.inotify_rm_watch", lambda fd, wd: K().rm_watch(fd, wd))
            P("os.pipe", lambda: K().pipe())
            P("os.close", lambda fd: K().close(fd))
            P("os.read", lambda fd, n: K().read(fd, n))
            P("os.write", lambda fd, d: K().write(fd, d))
            P("ctypes.get_errno", lambda: K().get_errno())
            P("os.path.isdir", lambda p: K().isdir(p))
            P("os.path.islink", lambda p: False)
            P("os.walk", lambda top, **kw: K().walk(top))
            P("select.poll", lambda: Poller(K()))
            yield
    return ctx()
