"""check drivers of the history properties (C01, C02, C03, C07, C19) over the shared harness fsfam.h_history"""
from __future__ import annotations

from ..driver import run_sessions

SESSIONS = {
    # property: list of (nops, recursive, settled, one_per_read, spelling, full) for (quick, thorough-extra)
    "C03": ([(1, True, True, False, "str", False), (1, False, True, True, "bytes", False),
             (1, True, True, False, "str", True)],
            [(1, True, True, True, "bytes", False), (1, False, True, False, "str", True)]),
    "C01": ([(1, True, True, False, "str", False), (1, False, True, True, "bytes", True)],
            [(1, True, True, True, "bytes", False), (1, False, True, False, "str", False)]),
    "C02": ([(1, True, True, True, "str", False), (1, False, True, False, "bytes", False)],
            [(1, True, True, False, "bytes", False), (1, True, True, False, "str", True)]),
    "C07": ([(1, True, True, False, "str", False), (1, True, True, True, "bytes", False)],
            [(1, False, True, False, "str", False), (1, True, True, False, "str", True)]),
    "C19": ([(1, True, True, False, "slash", False), (1, True, True, True, "bytes", False),
             (1, False, True, False, "str", True)],
            [(1, True, True, False, "str", False), (1, False, True, True, "slash", False)]),
}
# (fully symbolic two-operation histories were tried for the thorough tier: one such session does not finish building
#  within an hour; histories of two operations are covered by the directed sessions below instead)


# directed two-operation histories: the first operation is fixed, the second symbolic
MOVE_OUT = ("move directory /r/a out of the tree", ("rename", b"/r/a", b"/o/c"))
MKDIR = ("mkdir /r/c", ("mkdir", b"/r/a", b"/r/c"))
RENAME_DIR = ("rename directory /r/a to /r/c", ("rename", b"/r/a", b"/r/c"))
MOVE_IN = ("move directory /o/x into the tree as /r/c", ("rename", b"/o/x", b"/r/c"))
DIRECTED = {
    "C03": [MOVE_OUT],
    "C07": [MOVE_OUT],
    "C01": [MKDIR],
    "C02": [MKDIR],
}
DIRECTED_THOROUGH = {
    "C03": [RENAME_DIR],
    "C07": [RENAME_DIR, MOVE_IN],
    "C01": [RENAME_DIR, MOVE_IN],
    "C02": [RENAME_DIR, MOVE_IN],
    "C19": [RENAME_DIR],
}


# sessions with one transient inotify_add_watch failure after start-up (C07: monitoring never dies)
FAULT = {"C07": [(1, True, True, False, "str", False)]}


def check(rep, pid, extra=()):
    quick = rep.tier == "quick"
    q, t = SESSIONS[pid]
    cfgs = list(q) + ([] if quick else list(t))
    specs = []
    for title, first in DIRECTED.get(pid, []) + ([] if quick else DIRECTED_THOROUGH.get(pid, [])):
        settled = pid in ("C03", "C07")
        specs.append(dict(name=f"{pid}: directed history: {title}, then any operation ({'settled' if settled else 'back-to-back'}), recursive, str",
                          module="vf.props.fsfam", harness="h_history",
                          args=((pid,), 2, True, settled, False, "str", False, first), setup="setup", native_ctx="native_ctx",
                          jobs=3, query_timeout_s=900 if quick else 3000, loop_bound=200, int_union_limit=100000))
    for (nops, rec, settled, opr, sp, full) in cfgs:
        specs.append(dict(name=f"{pid}: {nops} op(s), recursive={rec}, {'settled' if settled else 'back-to-back'}, "
                               f"{'one event per read' if opr else 'one read per burst'}, root as {sp}, "
                               f"{'full' if full else 'normal'} emitter",
                          module="vf.props.fsfam", harness="h_history",
                          args=((pid,), nops, rec, settled, opr, sp, full), setup="setup", native_ctx="native_ctx",
                          jobs=3, query_timeout_s=900 if quick else 3000, loop_bound=200, int_union_limit=100000))
    for (nops, rec, settled, opr, spl, full) in FAULT.get(pid, []):
        specs.append(dict(name=f"{pid}: {nops} op(s) with one transient add_watch failure (ENOENT/ENOTDIR/EACCES at the 1st, "
                               f"2nd or 3rd call after start), recursive={rec}, root as {spl}",
                          module="vf.props.fsfam", harness="h_history",
                          args=((pid,), nops, rec, settled, opr, spl, full, None, True), setup="setup", native_ctx="native_ctx",
                          jobs=3, query_timeout_s=900 if quick else 3000, loop_bound=200, int_union_limit=100000))
    if pid == "C07":
        # mkdir -p c/d; touch c/d/f completed before the reader handles the first IN_CREATE, and one of the watches the
        # library then tries to add fails (no pacing condition: C07 quantifies over all timings)
        first = (("mkdir", b"/r/a", b"/r/c"), ("mkdir", b"/r/a", b"/r/c/d"), ("create", b"/r/a", b"/r/c/d/f"))
        specs.append(dict(name="C07: directed history: mkdir c; mkdir c/d; create c/d/f back to back, one transient add_watch "
                               "failure (ENOENT/ENOTDIR/EACCES at the 1st, 2nd or 3rd call), recursive, str",
                          module="vf.props.fsfam", harness="h_history",
                          args=((pid,), 3, True, False, False, "str", False, first, True), setup="setup",
                          native_ctx="native_ctx", jobs=3, query_timeout_s=900 if quick else 3000, loop_bound=200,
                          int_union_limit=100000))
    specs.extend(extra)
    for sp in specs:
        sp["property"] = pid
    res = run_sessions(specs, workers=min(len(specs), 5))
    rep.add_results(res)
    from . import fsfam
    rep.bounds = {"initial_tree": [p.decode() + ("/" if k == "d" else "") for p, k in fsfam.TREE],
                  "operations": list(fsfam.OPS) + ["(rename covers in-tree renames, moves out and moves in)"],
                  "operand_pools": {"src": [p.decode(errors="replace") for p in fsfam.SRC],
                                    "dst": [p.decode(errors="replace") for p in fsfam.DST]},
                  "history_length": sorted({c[0] for c in cfgs}), "sessions": [s["name"] for s in specs]}
    rep.outside = ["longer histories and other initial trees", "thread interleavings of reader/emitter (C08, C16, C17 cover "
                   "the queues; here the pipeline runs one batch at a time)", "symlinks, IN_Q_OVERFLOW, unmount",
                   "timings between 'drain after every operation' and 'two operations back to back'"]
    rep.stubs = ["file system + inotify kernel model vf/fsmodel.py (inotify(7) contract; NOT re-validated against the real "
                 "kernel in this run)", "Inotify._parse_event_buffer seam (the decoder is C20's subject)", "threading models "
                 "(sequential)"]
    rep.assumptions = ["every operation satisfies its precondition in the current tree", "back-to-back histories respect the "
                       "pacing condition of the statement", "replay semantics of DESIGN.md 9.0"]
