"""C11 - an event filter only removes events; it never alters the rest of the stream.

Symbolic: the filter (any subset of the 11 concrete event classes and the two base classes), one
native notification (operation kind, file/directory); per session: recursive, normal/full emitter.
Real code: InotifyEmitter.get_event_mask_from_filter, InotifyEmitter.queue_events (and
InotifyFullEmitter.queue_events), EventEmitter.__init__/queue_event, BaseThread.stop.
Kernel contract used (inotify(7)): a notification is delivered iff its event bit is in the watch mask;
the two halves of a rename are filtered independently; IN_IGNORED/IN_ISDIR are not maskable.
"""
from __future__ import annotations

import os

import watchdog.events as E
from watchdog.observers.api import ObservedWatch
from watchdog.observers.inotify import InotifyEmitter, InotifyFullEmitter
from watchdog.observers.inotify_c import InotifyConstants as IC, InotifyEvent, WATCHDOG_ALL_EVENTS

from .. import api

CLASSES = (E.FileSystemEvent, E.FileSystemMovedEvent, E.FileDeletedEvent, E.FileModifiedEvent, E.FileCreatedEvent,
           E.FileMovedEvent, E.FileClosedEvent, E.FileClosedNoWriteEvent, E.FileOpenedEvent, E.DirDeletedEvent,
           E.DirModifiedEvent, E.DirCreatedEvent, E.DirMovedEvent)

OPS = ("modify", "attrib", "create", "delete", "close_write", "close_nowrite", "open", "moved_out", "moved_in",
       "rename", "delete_self_root", "delete_self_sub")
BIT = {"modify": IC.IN_MODIFY, "attrib": IC.IN_ATTRIB, "create": IC.IN_CREATE, "delete": IC.IN_DELETE,
       "close_write": IC.IN_CLOSE_WRITE, "close_nowrite": IC.IN_CLOSE_NOWRITE, "open": IC.IN_OPEN,
       "moved_out": IC.IN_MOVED_FROM, "moved_in": IC.IN_MOVED_TO, "delete_self_root": IC.IN_DELETE_SELF,
       "delete_self_sub": IC.IN_DELETE_SELF}


class RecQ:
    def __init__(self):
        self.items = []

    def put(self, item):
        self.items.append(item[0])


class FakeBuf:
    def __init__(self, ev):
        self.ev = ev
        self.closed = False

    def read_event(self):
        return self.ev

    def close(self):
        self.closed = True


def has(mask, bit):
    """is `bit` delivered under watch mask `mask` (None = the library's default: everything it uses)"""
    if mask is None:
        return (WATCHDOG_ALL_EVENTS & bit) != 0
    return (mask & bit) != 0


def native(op, isdir, mask):
    """what the reader hands to the emitter for operation `op` under watch mask `mask`; None = nothing"""
    d = IC.IN_ISDIR if isdir else 0
    if op == "rename":
        fr = InotifyEvent(1, IC.IN_MOVED_FROM | d, 7, b"x", b"/r/x")
        to = InotifyEvent(1, IC.IN_MOVED_TO | d, 7, b"y", b"/r/y")
        if has(mask, IC.IN_MOVED_FROM):
            if has(mask, IC.IN_MOVED_TO):
                return (fr, to)
            return fr
        if has(mask, IC.IN_MOVED_TO):
            return to
        return None
    if not has(mask, BIT[op]):
        return None
    if op == "delete_self_root":
        return InotifyEvent(1, IC.IN_DELETE_SELF, 0, b"", b"/r")
    if op == "delete_self_sub":
        return InotifyEvent(2, IC.IN_DELETE_SELF, 0, b"", b"/r/d")
    return InotifyEvent(1, BIT[op] | d, 0, b"x", b"/r/x")


def run(cls, flt, recursive, op, isdir):
    watch = ObservedWatch("/r", recursive=recursive)
    q = RecQ()
    em = cls(q, watch, event_filter=flt)
    mask = em.get_event_mask_from_filter()
    ev = native(op, isdir, mask)
    if ev is not None:
        em._inotify = FakeBuf(ev)
        em.queue_events(1.0)
    return q.items, mask, em


def h_filter(recursive, full, nops, nflt):
    cls = InotifyFullEmitter if full else InotifyEmitter
    flt = []
    for i in range(nflt):
        flt.append(api.choice("filter." + str(i), CLASSES))
    op = api.choice("op", OPS[:nops])
    isdir = api.choice("isdir", (False, True))
    ref, m0, em0 = run(cls, None, recursive, op, isdir)
    got, mask, em = run(cls, flt, recursive, op, isdir)
    api.reach("both emitters ran")
    exp = []
    for e in ref:
        acc = False
        for c in flt:
            acc = acc | isinstance(e, c)
        if acc:
            exp.append(e)
    api.check(got == exp, "filtered stream == the unfiltered stream restricted to the filter's classes")
    api.check(m0 is None, "no filter: default mask")
    api.check(has(mask, IC.IN_DELETE_SELF), "deletion of the root is always listened for")
    if recursive:
        api.check(has(mask, IC.IN_CREATE) & has(mask, IC.IN_MOVED_FROM) & has(mask, IC.IN_MOVED_TO),
                  "recursive watch: the mask keeps the flags the directory bookkeeping needs (CREATE, MOVED_FROM, MOVED_TO)")
    api.check(em.should_keep_running() == em0.should_keep_running(), "filter does not change whether the emitter stops")


def setup(vm):
    from ..values import VList
    def walk(vm, s, a, k):
        # every directory that is walked (a moved or arrived directory) holds one sub-directory and one file
        top = a[0]
        return VList([(top, VList(["s"]), VList(["f"]))])
    vm.register_model(os.walk, walk)
    vm.native_classes.add(InotifyEvent)  # immutable value object: constructed and inspected natively


def native_ctx():
    """the same os.walk stub for native replay"""
    from unittest import mock

    def walk(top, *a, **k):
        yield top, ["s"], ["f"]
    return mock.patch("os.walk", walk)


def check(rep):
    from ..driver import run_sessions
    mod = __name__
    specs = []
    for recursive in (True, False):
        for full in (False, True):
            specs.append(dict(name=f"filter recursive={recursive} full={full}", module=mod, harness="h_filter",
                              args=(recursive, full, len(OPS), 2 if rep.tier == "quick" else 3), setup="setup", native_ctx="native_ctx", jobs=4, int_union_limit=500,
                              cross_check=rep.tier != "quick"))
    res = run_sessions(specs, workers=4)
    rep.add_results(res)
    rep.bounds = {"filters": "every filter of one or two (thorough: up to three) classes drawn from the 11 concrete "
                             "classes + FileSystemEvent + FileSystemMovedEvent (13^2 resp. 13^3 ordered choices)",
                  "native_operations": list(OPS), "kinds": ["file", "directory"], "recursive": [True, False],
                  "emitters": ["InotifyEmitter", "InotifyFullEmitter"], "history_length": 1}
    rep.outside = ["filters with more classes than the bound (the mask is a union and the queue-time test a disjunction "
                   "over the filter's classes, so interactions beyond pairs/triples are not expected but not claimed)",
                   "histories longer than one notification (the effect of a mask on later bookkeeping is covered only "
                   "through the 'bookkeeping flags' clause)", "shape of the synthetic events for descendants (os.walk stubbed to one sub-directory and one file; C14)",
                   "coalescing by the event queue (C16)"]
    rep.stubs = ["InotifyBuffer replaced by a one-shot buffer handing out the notification the kernel would deliver "
                 "under the derived mask", "os.walk -> one sub-directory 's' and one file 'f' in every walked directory", "threading primitives (prims.py, sequential mode)"]
    rep.assumptions = ["inotify(7): an event is delivered iff its bit is in the watch mask; halves of a rename are "
                       "masked independently; None mask = WATCHDOG_ALL_EVENTS"]
