"""C10 - polling reports exactly the diff of successive snapshots and survives races.

Symbolic: three successive trees T0 (at start), T1, T2 over a path universe (presence, kind, inode,
mtime, size per path), `recursive`, and a fault (ENOENT / ENOTDIR / EACCES raised by the stat or the
listdir call for one symbolic path) during the walk of one poll.
Real code: PollingEmitter.__init__/on_thread_start/queue_events, DirectorySnapshot.*,
DirectorySnapshotDiff.__init__, EventEmitter.queue_event, BaseThread.stop/should_keep_running.
Oracle: the statement, written over the trees *as the walk contract observes them* (DESIGN.md 9.0).
"""
from __future__ import annotations

import errno
import stat as stat_mod

from watchdog.events import (DirCreatedEvent, DirDeletedEvent, DirModifiedEvent, DirMovedEvent, FileCreatedEvent,
                             FileDeletedEvent, FileModifiedEvent, FileMovedEvent)
from watchdog.observers.api import ObservedWatch
from watchdog.observers.polling import PollingEmitter

from .. import api
from .c09 import universe, parent, depth


class St:
    def __init__(self, ino, dev, mode, mtime, size):
        self.st_ino = ino
        self.st_dev = dev
        self.st_mode = mode
        self.st_mtime = mtime
        self.st_size = size


class Ent:
    def __init__(self, name):
        self.name = name

ERRNOS = (errno.ENOENT, errno.ENOTDIR, errno.EACCES)


class Tree:
    def __init__(self, tag, paths, nino):
        self.paths = paths
        self.present = {}
        self.isdir = {}
        self.ino = {}
        self.mtime = {}
        self.size = {}
        i = 0
        for p in paths:
            if i == 0:
                self.present[p] = True
                self.isdir[p] = True
            else:
                self.present[p] = api.sym_bool(tag + ".present." + str(i))
                self.isdir[p] = api.sym_bool(tag + ".isdir." + str(i))
            self.ino[p] = api.sym_id(tag + ".ino." + str(i), 1, nino)
            self.mtime[p] = api.choice(tag + ".mtime." + str(i), (10, 20))
            self.size[p] = api.choice(tag + ".size." + str(i), (0, 5))
            i += 1
        for p in paths:
            if p != paths[0]:
                q = parent(p)
                api.assume((not self.present[p]) | (self.present[q] & self.isdir[q]))
        for p in paths:
            for q in paths:
                if p < q:
                    api.assume((not (self.present[p] & self.present[q])) | (self.ino[p] != self.ino[q]))


class FS:
    """the file system the emitter polls: the current tree plus one injectable fault"""

    def __init__(self, trees):
        self.trees = trees
        self.cur = 0
        self.fault_poll = -1     # which snapshot (1 or 2) is disturbed; -1: none
        self.fault_kind = "stat"
        self.fault_path = None
        self.fault_errno = errno.ENOENT

    def hit(self, kind, path):
        return (self.fault_poll == self.cur) & (self.fault_kind == kind) & (self.fault_path == path)

    def stat(self, path):
        t = self.trees[self.cur]
        if self.hit("stat", path):
            raise OSError(self.fault_errno, "injected")
        if path not in t.present or not t.present[path]:
            raise FileNotFoundError(errno.ENOENT, "no such entry", path)
        if t.isdir[path]:
            mode = stat_mod.S_IFDIR | 0o755
        else:
            mode = stat_mod.S_IFREG | 0o644
        return St(t.ino[path], 1, mode, t.mtime[path], t.size[path])

    def listdir(self, path):
        t = self.trees[self.cur]
        if self.hit("listdir", path):
            raise OSError(self.fault_errno, "injected")
        if path not in t.present or not t.present[path]:
            raise FileNotFoundError(errno.ENOENT, "no such directory", path)
        if not t.isdir[path]:
            raise NotADirectoryError(errno.ENOTDIR, "not a directory", path)
        out = []
        for q in t.paths:
            if q != t.paths[0] and parent(q) == path:
                if t.present[q]:
                    out.append(Ent(q[len(path) + 1:]))
        return out


class RecQ:
    def __init__(self):
        self.items = []

    def put(self, item):
        self.items.append(item[0])


def observed(fs, k, recursive):
    """presence of every path in snapshot k as the walk contract defines it (None: the snapshot fails)"""
    t = fs.trees[k]
    paths = t.paths
    obs = {}
    root = paths[0]
    faulted = fs.fault_poll == k
    root_fails = faulted & (fs.fault_path == root) & ((fs.fault_kind == "stat")
                                                      | ((fs.fault_kind == "listdir") & (fs.fault_errno == errno.EACCES)))
    obs[root] = True
    for p in paths[1:]:
        q = parent(p)
        if recursive or depth(p) <= 1:
            stat_fault = faulted & (fs.fault_kind == "stat") & (fs.fault_path == p)
            list_fault = faulted & (fs.fault_kind == "listdir") & (fs.fault_path == q)
            obs[p] = t.present[p] & (not stat_fault) & obs[q] & t.isdir[q] & (not list_fault)
        else:
            obs[p] = False
    return obs, root_fails


def expected_events(paths, ta, oa, tb, ob):
    """list of (event, kind-rank) the poll must queue: one per entry of the specified difference"""
    exp = []
    for p in paths:
        a_in_b = False
        a_changed = False
        b_in_a = False
        for q in paths:
            hit = ob[q] & (ta.ino[p] == tb.ino[q])
            a_in_b = a_in_b | hit
            a_changed = a_changed | (hit & ((ta.mtime[p] != tb.mtime[q]) | (ta.size[p] != tb.size[q])))
            b_in_a = b_in_a | (oa[q] & (ta.ino[q] == tb.ino[p]))
            moved = oa[p] & ob[q] & (ta.ino[p] == tb.ino[q])
            if p != q:
                if moved:
                    if ta.isdir[p]:
                        exp.append(DirMovedEvent(p, q))
                    else:
                        exp.append(FileMovedEvent(p, q))
        if oa[p] & (not a_in_b):
            if ta.isdir[p]:
                exp.append(DirDeletedEvent(p))
            else:
                exp.append(FileDeletedEvent(p))
        if ob[p] & (not b_in_a):
            if tb.isdir[p]:
                exp.append(DirCreatedEvent(p))
            else:
                exp.append(FileCreatedEvent(p))
        if oa[p] & a_in_b & a_changed:
            if ta.isdir[p]:
                exp.append(DirModifiedEvent(p))
            else:
                exp.append(FileModifiedEvent(p))
    return exp


def same_multiset(got, exp):
    ok = True
    for e in exp:
        ok = ok & (got.count(e) == 1)
    for e in got:
        ok = ok & (e in exp)
    return ok


def del_before_create(got):
    """within a poll: file deletions before file creations, directory deletions before directory creations"""
    ok = True
    seen_fc = False
    seen_dc = False
    for e in got:
        if isinstance(e, FileCreatedEvent):
            seen_fc = True
        if isinstance(e, DirCreatedEvent):
            seen_dc = True
        if isinstance(e, FileDeletedEvent):
            ok = ok & (not seen_fc)
        if isinstance(e, DirDeletedEvent):
            ok = ok & (not seen_dc)
    return ok


UNI_FAULT = ("/r", "/r/a", "/r/b", "/r/a/a", "/r/b/a")   # an unreadable directory with a later sibling that has contents
UNI_FLAT = ("/r", "/r/a", "/r/b", "/r/a/a")


def h_poll(n, recursive, with_fault):
    paths = universe(n) if isinstance(n, int) else n
    nino = len(paths) + 1
    trees = (Tree("T0", paths, nino), Tree("T1", paths, nino), Tree("T2", paths, nino))
    # kind is a function of the inode across successive trees
    for k in (0, 1):
        for p in paths:
            for q in paths:
                api.assume((not (trees[k].present[p] & trees[k + 1].present[q] & (trees[k].ino[p] == trees[k + 1].ino[q])))
                           | (trees[k].isdir[p] == trees[k + 1].isdir[q]))
    fs = FS(trees)
    if with_fault:
        fs.fault_poll = api.choice("fault.poll", (1, 2))
        fs.fault_kind = api.choice("fault.kind", ("stat", "listdir"))
        fs.fault_path = api.choice("fault.path", paths)
        fs.fault_errno = api.choice("fault.errno", ERRNOS)
    q = RecQ()
    em = PollingEmitter(q, ObservedWatch(paths[0], recursive=recursive), timeout=1.0, stat=fs.stat, listdir=fs.listdir)
    em.on_thread_start()          # baseline = the tree at start()
    api.check(len(q.items) == 0, "nothing is reported for the baseline")
    prev_obs, _ = observed(fs, 0, recursive)
    prev_tree = trees[0]
    stopped = False
    for k in (1, 2):
        fs.cur = k
        qk = RecQ()
        em._event_queue = qk      # a fresh recording queue per poll
        em.queue_events(1.0)
        new = qk.items
        obs, root_fails = observed(fs, k, recursive)
        if stopped:
            api.check(len(new) == 0, "no event after the emitter stopped")
        elif root_fails:
            api.check(len(new) == 1, "root gone: exactly one event")
            api.check(DirDeletedEvent(paths[0]) in new, "root gone: a DirDeletedEvent for the root")
            api.check(not em.should_keep_running(), "root gone: the emitter stops")
            stopped = True
            api.reach("root failure handled")
        else:
            exp = expected_events(paths, prev_tree, prev_obs, trees[k], obs)
            api.check(same_multiset(new, exp), "one event per entry of the difference, right class and path(s), nothing else")
            api.check(del_before_create(new), "deletions of a kind are queued before creations of that kind")
            api.check(em.should_keep_running(), "the emitter keeps running")
            prev_obs = obs
            prev_tree = trees[k]
    api.reach("two polls done")


def setup(vm):
    vm.native_classes.add(ObservedWatch)


def check(rep):
    from ..driver import run_sessions
    mod = __name__
    quick = rep.tier == "quick"
    n = 3 if quick else 4
    specs = [
        dict(name="polls recursive with fault, paths " + ",".join(UNI_FAULT), module=mod, harness="h_poll",
             args=(UNI_FAULT, True, True)),
        dict(name="polls non-recursive with fault, paths " + ",".join(UNI_FLAT), module=mod, harness="h_poll",
             args=(UNI_FLAT, False, True)),
        dict(name=f"polls n={n + 1} recursive no fault", module=mod, harness="h_poll", args=(n + 1, True, False)),
    ]
    if not quick:
        specs.append(dict(name="polls n=6 recursive with fault", module=mod, harness="h_poll", args=(6, True, True)))
    for sp in specs:
        sp.update(setup="setup", jobs=5, cross_check=not quick, query_timeout_s=1500)
    res = run_sessions(specs, workers=3)
    rep.add_results(res)
    rep.bounds = {"paths_with_fault": list(UNI_FAULT), "paths_non_recursive": list(UNI_FLAT), "paths_without_fault": n + 1, "successive_trees": 3, "polls": 2,
                  "fault": "stat or listdir of one symbolic path raises ENOENT/ENOTDIR/EACCES during poll 1 or 2",
                  "recursive": [True, False]}
    rep.outside = ["more polls / larger trees", "two faults in one walk", "device ids (fixed to one device; C09 covers them)",
                   "the timing of polls (the stop flag's timed wait is modelled as 'timeout elapsed')"]
    rep.stubs = ["stat/listdir injected through PollingEmitter's own parameters (as PollingObserverVFS does)",
                 "threading primitives in sequential mode (Event.wait(timeout) returns False)", "recording event queue"]
    rep.assumptions = ["snapshot contents follow the walk contract: an entry is present iff its stat returned and its parent was listed",
                       "a fault on the root's stat, or EACCES on the root's listdir, counts as 'root gone' (observed behaviour; DESIGN.md C10)",
                       "per tree inode numbers are unique; kind is a function of the inode across successive trees"]
