"""C04 - queued events reach each registered handler exactly once, in order, no one else.

Part A (Engine A, sequential with re-entrant calls): the real BaseObserver and event queue; up to three handlers on two
watches (registration symbolic), a symbolic sequence of distinct queued events, and per handler one symbolic
re-entrant API call on its first callback (add another handler / remove itself / remove another handler / unschedule /
unschedule_all).  Obligations: at the moment of every callback the handler is registered for the event's watch;
every handler registered when an event's dispatch starts and never removed receives it exactly once; nobody receives an
event twice; per handler, events arrive in queue order.

Part B (Engine B, threads): two emitter threads queueing events for their own watches through the real
EventEmitter.queue_event, the dispatcher thread in the real dispatch_events, and an application thread adding and
removing a second handler, under the symbolic scheduler.  Same obligations.  (Coalescing of identical consecutive
events is the subject of the C16 check; the events here are distinct.)
"""
from __future__ import annotations

import threading

from watchdog.events import FileCreatedEvent, FileSystemEventHandler
from watchdog.observers.api import BaseObserver, ObservedWatch

from .. import api
from .c05 import PATHS, QuietEmitter, World

ACTIONS = ("none", "add_other", "remove_self", "remove_other", "unschedule", "unschedule_all")


class Actor(FileSystemEventHandler):
    def __init__(self, idx, world, action):
        self.idx = idx
        self.world = world
        self.action = action
        self.fired = False

    def dispatch(self, event):
        w = self.world
        j = w.widx[event.src_path]
        api.check(w.regd[(self.idx, j)], "a handler only receives events of a watch it is registered for at that moment")
        w.calls.append((self.idx, j, w.eidx[event.src_path]))
        if self.fired:
            return
        self.fired = True
        a = self.action
        obs = w.obs
        t = (self.idx + 1) % w.nh
        if a == "add_other":
            api.assume(w.sched[j])
            obs.add_handler_for_watch(w.handlers[t], w.watches[j])
            if not w.regd[(t, j)]:
                w.regd[(t, j)] = True
                w.added[(t, j)] = w.eidx[event.src_path]
        elif a == "remove_self":
            obs.remove_handler_for_watch(self, w.watches[j])
            w.drop(self.idx, j)
        elif a == "remove_other":
            api.assume(w.regd[(t, j)])
            obs.remove_handler_for_watch(w.handlers[t], w.watches[j])
            w.drop(t, j)
        elif a == "unschedule":
            obs.unschedule(w.watches[j])
            w.drop_watch(j)
        elif a == "unschedule_all":
            obs.unschedule_all()
            for k in range(w.nw):
                w.drop_watch(k)


def h_seq(nh, nw, nev):
    obs = BaseObserver(QuietEmitter)
    w = World(obs, nh, nw)
    w.added = {}
    for i in range(nh):
        w.handlers.append(Actor(i, w, api.choice("action." + str(i), ACTIONS)))
    for j in range(nw):
        w.watches.append(obs.schedule(w.handlers[j % nh], PATHS[j]))
        w.sched[j] = True
        for i in range(nh):
            if i == j % nh:
                w.regd[(i, j)] = True
            else:
                r = api.sym_bool("reg." + str(i) + "." + str(j))
                w.regd[(i, j)] = r
                if r:
                    obs.add_handler_for_watch(w.handlers[i], w.watches[j])
    emitters = [obs._emitter_for_watch[x] for x in w.watches]
    ev_watch = []
    for k in range(nev):
        j = api.choice("event." + str(k) + ".watch", tuple(range(nw)))
        path = PATHS[j] + "/e" + str(k)
        w.widx[path] = j
        w.eidx[path] = k
        ev_watch.append(j)
        emitters[j].queue_event(FileCreatedEvent(path))
    q = obs.event_queue
    snap = []
    for k in range(nev):
        snap.append(dict(w.regd))          # who is registered when the dispatch of event k starts
        obs.dispatch_events(q)
    api.reach("all queued events dispatched")
    api.check(q.empty(), "every queued event was taken")
    for e in range(nev):
        j = ev_watch[e]
        for i in range(nh):
            n = w.calls.count((i, j, e))
            api.check(n <= 1, "an event is passed to a handler at most once")
            if snap[e][(i, j)] and not ((i, j) in w.removed):
                api.check(n == 1, "a handler registered when the dispatch starts and never removed receives the event "
                                  "exactly once")
            if (not snap[e][(i, j)]) and not (((i, j) in w.added) and w.added[(i, j)] == e):
                api.check(n == 0, "a handler that is not registered for the watch does not receive its event")
            for j2 in range(nw):
                if j2 != j:
                    api.check(w.calls.count((i, j2, e)) == 0, "an event is routed by its own watch")
    for i in range(nh):
        last = -1
        for (i2, j2, e2) in w.calls:
            if i2 == i:
                api.check(e2 > last, "a handler receives events in the order they were queued")
                last = e2
    if len(w.removed) == 0:
        api.reach("a history without any removal")


# ------------------------------------------------------------------------------------------------- Engine B
class Rec(FileSystemEventHandler):
    def __init__(self, idx, world):
        self.idx = idx
        self.world = world

    def dispatch(self, event):
        w = self.world
        w.mark = self.idx
        if self.idx == 2 and w.remove_done:
            w.late = True
        w.calls.append((self.idx, event.src_path))


def emitter_thread(em, events, w):
    for e in events:
        w.mark = 10                   # a scheduling point before every queue_event: an emitter can be arbitrarily late
        em.queue_event(e)


def dispatcher(obs, n):
    for _ in range(n):
        obs.dispatch_events(obs.event_queue)


def application(obs, w, h, watch):
    obs.add_handler_for_watch(h, watch)
    w.mark = 11
    obs.remove_handler_for_watch(h, watch)
    w.remove_done = True


def h_threads(n0, n1, with_app):
    obs = BaseObserver(QuietEmitter)
    w = World(obs, 3, 2)
    w.remove_done = False
    w.late = False
    for i in range(3):
        w.handlers.append(Rec(i, w))
    w.watches.append(obs.schedule(w.handlers[0], PATHS[0]))
    w.watches.append(obs.schedule(w.handlers[1], PATHS[1]))
    ems = [obs._emitter_for_watch[x] for x in w.watches]
    evs = [[FileCreatedEvent(PATHS[0] + "/e" + str(k)) for k in range(n0)],
           [FileCreatedEvent(PATHS[1] + "/e" + str(k)) for k in range(n1)]]
    threads = [threading.Thread(target=emitter_thread, args=(ems[0], evs[0], w), name="emitter0")]
    if n1:
        threads.append(threading.Thread(target=emitter_thread, args=(ems[1], evs[1], w), name="emitter1"))
    threads.append(threading.Thread(target=dispatcher, args=(obs, n0 + n1), name="dispatcher"))
    if with_app:
        threads.append(threading.Thread(target=application, args=(obs, w, w.handlers[2], w.watches[0]), name="application"))
    for t in threads:
        t.start()
    api.join_all(threads)
    api.reach("emitters, dispatcher and application thread finished")
    for j in (0, 1):
        h = j                       # handler j is registered for watch j throughout
        for e in evs[j]:
            api.check(w.calls.count((h, e.src_path)) == 1, "a handler registered throughout receives every event of its "
                                                           "watch exactly once")
            api.check(w.calls.count((1 - h, e.src_path)) == 0, "a handler never receives an event of a watch it is not "
                                                               "registered for")
            if j == 1 or not with_app:
                api.check(w.calls.count((2, e.src_path)) == 0, "a handler never receives an event of a watch it is not "
                                                               "registered for")
            else:
                api.check(w.calls.count((2, e.src_path)) <= 1, "an event is passed to a handler at most once")
        for a in range(len(evs[j])):
            for b in range(a + 1, len(evs[j])):
                api.check(w.calls.index((h, evs[j][a].src_path)) < w.calls.index((h, evs[j][b].src_path)),
                          "events of one watch arrive in the order they were queued")
    if with_app:
        api.check(not w.late, "no callback of a removed handler starts after the removal returned")
        if w.calls.count((2, evs[0][0].src_path)) == 1:
            api.reach("the handler added by the application thread was called")


def setup(vm):
    vm.native_classes.add(ObservedWatch)


def check(rep):
    from ..driver import run_sessions
    mod = __name__
    quick = rep.tier == "quick"
    seq = [dict(name="re-entrant: 2 handlers, 2 watches, 2 events", module=mod, harness="h_seq", args=(2, 2, 2)),
           dict(name="re-entrant: 3 handlers, 1 watch, 2 events", module=mod, harness="h_seq", args=(3, 1, 2))]
    if not quick:
        seq.append(dict(name="re-entrant: 3 handlers, 2 watches, 3 events", module=mod, harness="h_seq", args=(3, 2, 3)))
    for sp in seq:
        sp.update(setup="setup", encode=("watchdog", "queue", "vf.props.c05"), jobs=4, query_timeout_s=900 if quick else 3000, loop_bound=400)
    racy = [("BaseObserver", "_handlers"), ("World", "mark"), ("EventQueue", "_last_item")]
    conc = [dict(name="threads: emitter0 x2 events | dispatcher", module=mod, harness="h_threads", args=(2, 0, False),
                 steps=40),
            dict(name="threads: emitter0 x1 | emitter1 x1 | dispatcher", module=mod, harness="h_threads",
                 args=(1, 1, False), steps=40),
            dict(name="threads: emitter0 x1 | dispatcher | application adds and removes a handler", module=mod,
                 harness="h_threads", args=(1, 0, True), steps=36)]
    for sp in conc:
        sp.update(setup="setup", encode=("watchdog", "queue", "vf.props.c05"), racy=racy, jobs=4, query_timeout_s=900 if quick else 3000,
                  loop_bound=400)
    specs = seq + conc
    res = run_sessions(specs, workers=min(len(specs), 8))
    rep.add_results(res)
    rep.bounds = {"sessions": [sp["name"] for sp in specs], "actions": list(ACTIONS), "steps_K": [sp.get("steps") for sp in conc]}
    rep.outside = ["more handlers / watches / events / threads", "identical consecutive events (coalescing is decided by the "
                   "C16 check)", "schedule()/unschedule() from the application thread while emitters run (emitter threads are "
                   "not run; C06 is not claimed)", "handlers that make more than one re-entrant call"]
    rep.stubs = ["threading models; stdlib queue.Queue interpreted", "QuietEmitter(EventEmitter): events enter through the "
                 "real EventEmitter.queue_event", "dispatcher = the real BaseObserver.dispatch_events called n times"]
    rep.assumptions = ["a re-entrant call satisfies its own precondition", "scheduling points (threads): lock acquisitions, "
                       "wait resumptions, every access to BaseObserver._handlers and to the queue's _last_item, the start "
                       "of every callback and of every queue_event"]
