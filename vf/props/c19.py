"""C19 - event paths keep the caller's path type and the exact name.

History part: see vf/props/fsfam.py (shared harness of the history properties) and DESIGN.md section 9.
Registry part (this file): two handlers scheduled on one observer with symbolic spellings of the watched directory
(str, bytes, trailing slash, another directory) and symbolic recursive flags: watches are one watch only if path type,
spelling and flags agree, and every handler receives paths of the type it gave.
"""
import os

from watchdog.events import FileCreatedEvent, FileSystemEventHandler
from watchdog.observers.api import BaseObserver, EventEmitter, ObservedWatch

from .. import api
from . import fsfam_check

SPELL = ("/r", b"/r", "/r/", "/q", b"/q")


class QuietEmitter(EventEmitter):
    def queue_events(self, timeout):
        self.stopped_event.wait()


class Rec(FileSystemEventHandler):
    def __init__(self):
        self.got = []

    def dispatch(self, event):
        self.got.append(event)


def h_two_watches():
    p1 = api.choice("path1", SPELL)
    p2 = api.choice("path2", SPELL)
    r1 = api.choice("recursive1", (False, True))
    r2 = api.choice("recursive2", (False, True))
    obs = BaseObserver(QuietEmitter)
    h1 = Rec()
    h2 = Rec()
    w1 = obs.schedule(h1, p1, recursive=r1)
    w2 = obs.schedule(h2, p2, recursive=r2)
    same = (isinstance(p1, str) == isinstance(p2, str)) & (p1 == p2) & (r1 == r2)
    api.check((w1 == w2) == same, "two watches are one watch only if path type, spelling and flags are the same")
    api.check(len(obs.emitters) == (1 if same else 2), "every distinct watch has its own emitter")
    api.check(isinstance(w1.path, str) == isinstance(p1, str), "a watch keeps the path type it was given")
    api.check(isinstance(w2.path, str) == isinstance(p2, str), "a watch keeps the path type it was given")
    # every emitter reports one entry below its own watched path, typed like that path
    for em in list(obs.emitters):
        base = em.watch.path
        name = "x" if isinstance(base, str) else b"x"
        em.queue_event(FileCreatedEvent(os.path.join(base, name)))
    q = obs.event_queue
    for k in range(2):
        if not q.empty():
            obs.dispatch_events(q)
    api.reach("events dispatched")
    for e in h1.got:
        api.check(isinstance(e.src_path, str) == isinstance(p1, str), "a handler receives paths of the type it gave when scheduling")
    for e in h2.got:
        api.check(isinstance(e.src_path, str) == isinstance(p2, str), "a handler receives paths of the type it gave when scheduling")
    api.check(len(h1.got) >= 1, "every handler receives the event of its watch")
    api.check(len(h2.got) >= 1, "every handler receives the event of its watch")
    if not same:
        api.reach("two distinct watches")


def setup(vm):
    vm.native_classes.add(ObservedWatch)


def check(rep):
    extra = [dict(name="C19: two handlers scheduled with symbolic spellings (str / bytes / trailing slash) of the directory",
                  module=__name__, harness="h_two_watches", args=(), setup="setup", encode=("watchdog", "queue"), jobs=2,
                  loop_bound=60)]
    fsfam_check.check(rep, "C19", extra=extra)
