"""C16 - the event queue drops only true consecutive duplicates and never anything else.

Engine B: the real SkipRepeatsQueue.put/_put/_get/_init on top of the *interpreted* stdlib queue.Queue
(put/get/_init/_put/_get/_qsize; lock and condition primitives modelled), producers and a consumer under
a symbolic scheduler; item values symbolic.  `_last_item` is read outside the queue's mutex by put():
every access to it is a scheduling point.
CrossHair (crosshair_harness/c16_ch.py): sequential put/get sequences against a reference model, and
the equality/hash law of FileSystemEvent on symbolic field values.
"""
from __future__ import annotations

import queue
import threading

from watchdog.utils.bricks import SkipRepeatsQueue

from .. import api


class Item:
    """queue item: equal iff same value; `tag` tells equal items apart"""

    def __init__(self, v, tag):
        self.v = v
        self.tag = tag

    def __eq__(self, other):
        return isinstance(other, Item) and self.v == other.v

    def __ne__(self, other):
        return not (isinstance(other, Item) and self.v == other.v)

    def __hash__(self):
        return hash(self.v)


class Ghost:
    def __init__(self):
        self.mark = None      # written right before every put(): a scheduling point, so that a put() can start late
        self.clock = 0
        self.enq = []         # items in the order the queue really accepted them
        self.enq_time = {}
        self.deq_time = {}
        self.next_enq = {}    # tag -> time of the next enqueue after it (how long it was the tail)
        self.last_tag = None
        self.start = {}
        self.end = {}

    def tick(self):
        return api.step()     # the scheduler's step index is the logical clock


class GQ(SkipRepeatsQueue):
    """the real queue with ghost bookkeeping inside its own critical sections"""

    def __init__(self, ghost):
        self.ghost = ghost
        super().__init__()

    def _put(self, item):
        super()._put(item)
        g = self.ghost
        t = g.tick()
        g.enq.append(item)
        g.enq_time[item.tag] = t
        if g.last_tag is not None:
            g.next_enq[g.last_tag] = t
        g.last_tag = item.tag

    def _get(self):
        item = super()._get()
        g = self.ghost
        g.deq_time[item.tag] = g.tick()
        return item


def producer(q, items, ghost):
    for it in items:
        ghost.mark = it.tag
        ghost.start[it.tag] = ghost.tick()
        q.put(it)
        ghost.end[it.tag] = ghost.tick()


def consumer(q, n, got):
    for _ in range(n):
        got.append(q.get().tag)


BIG = 1000


def h_queue(nprod, nputs, ngets):
    ghost = Ghost()
    q = GQ(ghost)
    got = []
    prods = []
    allitems = []
    tag = 0
    for p in range(nprod):
        items = []
        for k in range(nputs):
            items.append(Item(api.choice("val." + str(tag), ("x", "y")), tag))
            tag += 1
        allitems.extend(items)
        prods.append(items)
    threads = [threading.Thread(target=producer, args=(q, prods[p], ghost), name="producer" + str(p))
               for p in range(nprod)]
    threads.append(threading.Thread(target=consumer, args=(q, ngets, got), name="consumer"))
    for t in threads:
        t.start()
    api.join_all(threads)
    # drain what is left
    while True:
        try:
            got.append(q.get_nowait().tag)
        except queue.Empty:
            break
    api.reach("drained")
    # ---- FIFO and exactly-once delivery of what was accepted
    api.check(len(got) == len(ghost.enq), "everything that was accepted is delivered, nothing else")
    for a in allitems:
        acc = a.tag in ghost.enq_time
        api.check((got.count(a.tag) == 1) == acc, "an accepted item is delivered exactly once, a dropped one never")
        if acc:
            for b in allitems:
                if b is not a:
                    if b.tag in ghost.enq_time:
                        if ghost.enq_time[a.tag] < ghost.enq_time[b.tag]:
                            api.check(got.index(a.tag) < got.index(b.tag), "items are delivered in the order they were accepted (FIFO)")
    # ---- every put() that did not enqueue is justified by an equal item that was the waiting tail meanwhile
    for it in allitems:
        accepted = it.tag in ghost.enq_time
        if not accepted:
            justified = False
            for other in allitems:
                if other is not it:
                    if other.tag in ghost.enq_time:
                        e = ghost.enq_time[other.tag]
                        d = ghost.deq_time[other.tag] if other.tag in ghost.deq_time else BIG
                        nx = ghost.next_enq[other.tag] if other.tag in ghost.next_enq else BIG
                        until = d if d < nx else nx
                        ok = (other.v == it.v) & (e < ghost.end[it.tag]) & (ghost.start[it.tag] < until)
                        # (times are scheduler steps: one thread per step, so "<" means strictly earlier)
                        justified = justified | ok
            api.check(justified, "an item is dropped only if an equal item was the still-waiting tail of the queue "
                                 "during its put()")
            api.reach("some put was coalesced")
    # ---- equal items separated by a different one are both delivered (sequential corollary, one producer)
    if nprod == 1 and nputs >= 3:
        a, b, c = prods[0][0], prods[0][1], prods[0][2]
        if (a.v == c.v) & (a.v != b.v):
            api.check((a.tag in got) & (b.tag in got) & (c.tag in got), "equal items separated by a different item are both delivered")


EV_CLASSES = ("FileSystemEvent", "FileSystemMovedEvent", "FileDeletedEvent", "FileModifiedEvent", "FileCreatedEvent",
              "FileMovedEvent", "FileClosedEvent", "FileClosedNoWriteEvent", "FileOpenedEvent", "DirDeletedEvent",
              "DirModifiedEvent", "DirCreatedEvent", "DirMovedEvent")


def h_eq_law():
    """two events are equal only if they have the same class and the same field values; equal => same hash"""
    import watchdog.events as E
    c1 = api.choice("c1", EV_CLASSES)
    c2 = api.choice("c2", EV_CLASSES)
    s1 = api.choice("s1", ("a", "b", b"a"))
    s2 = api.choice("s2", ("a", "b", b"a"))
    d1 = api.choice("d1", ("", "c"))
    d2 = api.choice("d2", ("", "c"))
    y1 = api.choice("y1", (False, True))
    y2 = api.choice("y2", (False, True))
    e1 = getattr(E, c1)(s1, d1, is_synthetic=y1)
    e2 = getattr(E, c2)(s2, d2, is_synthetic=y2)
    same = (c1 == c2) & (s1 == s2) & (d1 == d2) & (y1 == y2)
    api.reach("two events built")
    api.check((e1 == e2) == same, "events are equal iff same class and same field values")
    api.check((e1 != e2) == (not same), "!= is the negation of ==")
    if same:
        api.check(hash(e1) == hash(e2), "equal events have equal hashes")


def check(rep):
    from ..driver import run_sessions
    from . import c16_crosshair
    mod = __name__
    quick = rep.tier == "quick"
    racy = [("GQ", "_last_item"), ("Ghost", "mark")]
    specs = [
        dict(name="1 producer x 2 puts | consumer 1 get", module=mod, harness="h_queue", args=(1, 2, 1), steps=24),
        dict(name="2 producers x 1 put | consumer 1 get", module=mod, harness="h_queue", args=(2, 1, 1), steps=24),
    ]
    if not quick:
        # (the consumer takes one item only: equal consecutive items may legitimately be coalesced into one, and a
        #  consumer waiting for a second item that never comes would be a deadlock of the harness, not of the queue)
        specs.append(dict(name="1 producer x 3 puts | consumer 1 get", module=mod, harness="h_queue", args=(1, 3, 1),
                          steps=30))
    for sp in specs:
        sp.update(racy=racy, encode=("watchdog", "queue"), jobs=5, query_timeout_s=900 if quick else 3000,
                  loop_bound=40)
    specs.append(dict(name="event equality/hash law", module=mod, harness="h_eq_law", args=(), jobs=2))
    import concurrent.futures as cf
    with cf.ThreadPoolExecutor(max_workers=1) as ex:
        fut = ex.submit(c16_crosshair.run, quick)
        res = run_sessions(specs, workers=len(specs))
        ch = fut.result()
    rep.add_results(res)
    c16_crosshair.fold(rep, ch)
    rep.bounds = {"programs": [sp["name"] for sp in specs], "steps_K": [sp.get("steps") for sp in specs],
                  "item_values": ["x", "y"], "crosshair": ch.get("bounds")}
    rep.outside = ["more producers/items (2 producers x 2 puts with 2 gets at K = 34 did not finish solving in 50 minutes)", "maxsize > 0 (the event queue is unbounded)",
                   "eventlet's queue replacement"]
    rep.stubs = ["threading.Lock/Condition/Thread models; stdlib queue.Queue is interpreted, not modelled",
                 "ghost bookkeeping subclass GQ(SkipRepeatsQueue) inside the queue's own critical sections"]
    rep.assumptions = ["scheduling points: mutex acquisition, condition-wait resumption, every access to _last_item",
                       "a dropped put is justified iff an equal item was accepted before the put ended and was still the "
                       "waiting tail after the put started (logical clock inside the critical sections)"]
