"""C12 - every descriptor and thread is released exactly once, also on failure.

Part A (Engine A, fault enumeration as solver variables): Inotify.__init__/_add_dir_watch/_add_watch through
InotifyBuffer.__init__ over a three-directory tree, with inotify_init or the i-th inotify_add_watch failing
(ENOSPC/EMFILE/ENOENT/EACCES): if construction raises, every descriptor opened is closed and none twice.
Part B (Engine B): the reader thread (real InotifyBuffer.run -> Inotify.read_events) against the closer
(InotifyBuffer.close -> stop/on_thread_stop -> Inotify.close, join) over the descriptor model, for all
interleavings including close before the reader's first read: no use after close, no double close, all three
descriptors closed once the close has returned, the reader thread finished.
"""
from __future__ import annotations

import errno

from watchdog.observers.inotify_buffer import InotifyBuffer
from watchdog.observers.inotify_c import Inotify

from .. import api
from .. import kernelmodel as KM

TREE = (b"/r", b"/r/a", b"/r/a/b")


def h_ctor_fault():
    k = KM.Kernel(TREE)
    KM.use_kernel(k)
    k.fail_init = api.sym_bool("fail_inotify_init")
    k.fail_add_at = api.choice("fail_add_watch_at", (-1, 0, 1, 2))
    k.fail_errno = api.choice("errno", (errno.ENOSPC, errno.EMFILE, errno.ENOENT, errno.EACCES))
    recursive = api.choice("recursive", (True, False))
    raised = False
    try:
        ino = Inotify(TREE[0], recursive=recursive)
    except OSError:
        raised = True
    api.reach("constructor returned or raised")
    if raised:
        api.check(k.open_fds() == 0, "a failed watch construction releases every descriptor it opened")
        api.reach("construction failed")
    else:
        api.check(k.open_fds() == 3, "a successful construction holds exactly the inotify descriptor and the wake-up pipe")
        ino.close()
        # nobody is reading: close() must release the descriptors itself
        api.check(k.open_fds() == 0, "close() with no read in flight releases all three descriptors")
    for fd in (3, 4, 5):
        if fd in k.closed_count:
            api.check(k.closed_count[fd] <= 1, "no descriptor is closed twice")


def h_close_vs_read(data_first, root_deleted=False):
    k = KM.Kernel((b"/r",))
    KM.use_kernel(k)
    if data_first:
        k.readable = api.sym_bool("data_pending")
    if root_deleted:
        # the watched directory itself is deleted: the reader sees DELETE_SELF + IGNORED and ends on its own
        k.readable = True
        k.root_deleted = True
    buf = InotifyBuffer(b"/r", recursive=False)    # opens the descriptors, starts the reader thread
    buf.close()                                     # stop + join
    api.reach("close returned")
    api.check(not buf.is_alive(), "the reader thread has finished once close() returned")
    api.check(k.open_fds() == 0, "inotify descriptor and wake-up pipe are all released once close() returned")
    for fd in (3, 4, 5):
        api.check(k.closed_count[fd] == 1, "every descriptor is closed exactly once")


def setup(vm):
    KM.install(vm)


def native_ctx():
    return KM.native_ctx()


def check(rep):
    from ..driver import run_sessions
    mod = __name__
    quick = rep.tier == "quick"
    specs = [
        dict(name="A: construction faults", module=mod, harness="h_ctor_fault", args=(), setup="setup", native_ctx="native_ctx"),
        dict(name="B: close vs reader", module=mod, harness="h_close_vs_read", args=(True,), setup="setup", steps=40,
             racy=[("Inotify", "_closed"), ("Inotify", "_is_reading")], loop_bound=60),
    ]
    for sp in specs:
        sp.update(jobs=5, query_timeout_s=900 if quick else 3000)
    res = run_sessions(specs, workers=3)
    rep.add_results(res)
    rep.bounds = {"A": {"tree": [p.decode() for p in TREE], "fault": "inotify_init fails, or the i-th inotify_add_watch "
                        "(i in 0..2) fails with ENOSPC/EMFILE/ENOENT/EACCES", "recursive": [True, False]},
                  "B": {"threads": "reader (InotifyBuffer.run) | closer (InotifyBuffer.close)", "steps_K": 40,
                        "kernel": "data may be pending before the first read; rm_watch and the kill pipe wake the poll"}}
    rep.outside = ["schedule/unschedule cycles on a real observer and real descriptors (process-level counting)",
                   "EINTR from poll/read", "events arriving between reads (C01/C07)"]
    rep.stubs = ["descriptor table + inotify seams (vf/kernelmodel.py, interpreted)", "threading models"]
    rep.assumptions = ["descriptor numbers are not reused within a run", "poll() blocks until the inotify descriptor is "
                       "readable or the kill pipe was written"]
