"""C09 - a snapshot diff is a correct, minimal, inode-faithful description of the change.

Symbolic: two directory trees over a fixed path universe (per path and side: present, kind,
inode, device, mtime, size), `recursive`, `ignore_device`.  Real code (bytecode of):
DirectorySnapshot.__init__/walk/paths/path/inode/isdir/mtime/size/__sub__ and
DirectorySnapshotDiff.__init__ + its eight list properties, driven through the injectable
stat/listdir.  The oracle below is the statement's set algebra written over the inputs only.
"""
from __future__ import annotations

import errno
import os
import stat as stat_mod

from watchdog.utils.dirsnapshot import DirectorySnapshot, DirectorySnapshotDiff

from .. import api

ROOT = "/r"


def universe(n, as_bytes=False):
    """root + (n-1) paths, breadth first over names {a,b}, depth <= 3"""
    names = ["a", "b"]
    level = [ROOT]
    out = [ROOT]
    for _ in range(3):
        nxt = []
        for p in level:
            for nm in names:
                q = p + "/" + nm
                nxt.append(q)
                out.append(q)
        level = nxt
    # keep tree-closed prefix order (breadth first is parent-before-child); take first n
    out = out[:n]
    if as_bytes:
        out = [p.encode() for p in out]
    return tuple(out)


def parent(p):
    return p.rsplit("/" if isinstance(p, str) else b"/", 1)[0]


def depth(p):
    return p.count("/" if isinstance(p, str) else b"/") - 1


class St:
    def __init__(self, ino, dev, mode, mtime, size):
        self.st_ino = ino
        self.st_dev = dev
        self.st_mode = mode
        self.st_mtime = mtime
        self.st_size = size


class Ent:
    def __init__(self, name):
        self.name = name


class Side:
    """one symbolic tree"""

    def __init__(self, tag, paths, nino):
        self.tag = tag
        self.paths = paths
        self.present = {}
        self.isdir = {}
        self.ino = {}
        self.dev = {}
        self.mtime = {}
        self.size = {}
        i = 0
        for p in paths:
            if i == 0:
                self.present[p] = True
                self.isdir[p] = True
            else:
                self.present[p] = api.sym_bool(tag + ".present." + str(i))
                self.isdir[p] = api.sym_bool(tag + ".isdir." + str(i))
            # finite domains as one-hot choices (pure SAT encoding; only equality is ever used)
            self.ino[p] = api.sym_id(tag + ".ino." + str(i), 1, nino)
            self.dev[p] = api.choice(tag + ".dev." + str(i), (1, 2))
            self.mtime[p] = api.choice(tag + ".mtime." + str(i), (10, 20))
            self.size[p] = api.choice(tag + ".size." + str(i), (0, 5))
            i += 1
        # tree-closed; one path per inode
        for p in paths:
            if p != paths[0]:
                q = parent(p)
                api.assume((not self.present[p]) | (self.present[q] & self.isdir[q]))
        for p in paths:
            for q in paths:
                if p < q:
                    api.assume((not (self.present[p] & self.present[q])) | (self.ino[p] != self.ino[q])
                               | (self.dev[p] != self.dev[q]))

    def stat(self, path):
        if path not in self.present:
            raise FileNotFoundError(errno.ENOENT, "no such entry", path)
        if not self.present[path]:
            raise FileNotFoundError(errno.ENOENT, "no such entry", path)
        if self.isdir[path]:
            mode = stat_mod.S_IFDIR | 0o755
        else:
            mode = stat_mod.S_IFREG | 0o644
        return St(self.ino[path], self.dev[path], mode, self.mtime[path], self.size[path])

    def listdir(self, path):
        if path not in self.present or not self.present[path]:
            raise FileNotFoundError(errno.ENOENT, "no such directory", path)
        if not self.isdir[path]:
            raise NotADirectoryError(errno.ENOTDIR, "not a directory", path)
        out = []
        for q in self.paths:
            if q != self.paths[0] and parent(q) == path:
                if self.present[q]:
                    out.append(Ent(q[len(path) + 1:]))
        return out

    def inset(self, p, recursive):
        """is p part of a snapshot of this tree?"""
        if recursive or depth(p) <= 1:
            return self.present[p]
        return False


def same_id(a, p, b, q):
    return (a.ino[p] == b.ino[q]) & (a.dev[p] == b.dev[q])


def in_any(x, l1, l2):
    return (x in l1) | (x in l2)


def h_laws(n, recursive, ignore_device, as_bytes):
    paths = universe(n, as_bytes)
    a = Side("A", paths, n)
    b = Side("B", paths, n)
    # kind is a function of identity
    for p in paths:
        for q in paths:
            api.assume((not (a.present[p] & b.present[q] & same_id(a, p, b, q))) | (a.isdir[p] == b.isdir[q]))
    if ignore_device:
        # general laws with ignore_device are claimed only when no device id differs
        for p in paths:
            api.assume((a.dev[p] == 1) & (b.dev[p] == 1))
    ref = DirectorySnapshot(paths[0], recursive=recursive, stat=a.stat, listdir=a.listdir)
    new = DirectorySnapshot(paths[0], recursive=recursive, stat=b.stat, listdir=b.listdir)
    # snapshot contents
    for p in paths:
        api.check((p in ref.paths) == a.inset(p, recursive), "snapshot contains exactly the reachable entries")
        api.check((p in new.paths) == b.inset(p, recursive), "snapshot contains exactly the reachable entries")
    diff = DirectorySnapshotDiff(ref, new, ignore_device=ignore_device)
    fc, fd, fm, fmv = diff.files_created, diff.files_deleted, diff.files_modified, diff.files_moved
    dc, dd, dm, dmv = diff.dirs_created, diff.dirs_deleted, diff.dirs_modified, diff.dirs_moved
    api.reach("diff computed")
    for p in paths:
        ina = a.inset(p, recursive)
        inb = b.inset(p, recursive)
        # where is the entry that is at p in A found in B, and vice versa?
        a_in_b = False      # identity of A[p] exists somewhere in B's snapshot
        a_stays = inb & same_id(a, p, b, p)
        a_changed = False   # ... and differs in mtime/size
        b_in_a = False
        for q in paths:
            hit = b.inset(q, recursive) & same_id(a, p, b, q)
            a_in_b = a_in_b | hit
            a_changed = a_changed | (hit & ((a.mtime[p] != b.mtime[q]) | (a.size[p] != b.size[q])))
            b_in_a = b_in_a | (a.inset(q, recursive) & same_id(a, q, b, p))
        exp_deleted = ina & (not a_in_b)
        exp_created = inb & (not b_in_a)
        exp_modified = ina & a_in_b & a_changed
        api.check(in_any(p, fd, dd) == exp_deleted, "deleted <=> in old snapshot and inode absent from the new one")
        api.check(in_any(p, fc, dc) == exp_created, "created <=> in new snapshot and inode absent from the old one")
        api.check(in_any(p, fm, dm) == exp_modified, "modified <=> identity kept and mtime or size changed (old path)")
        # kind classification and exactly-one-list
        api.check((not (p in dd)) | a.isdir[p], "dirs_deleted holds directories")
        api.check((not (p in fd)) | (not a.isdir[p]), "files_deleted holds files")
        api.check((not (p in dc)) | b.isdir[p], "dirs_created holds directories")
        api.check((not (p in fc)) | (not b.isdir[p]), "files_created holds files")
        api.check((not (p in dm)) | a.isdir[p], "dirs_modified holds directories")
        api.check((not (p in fm)) | (not a.isdir[p]), "files_modified holds files")
        api.check(fc.count(p) + dc.count(p) <= 1, "no duplicate in created lists")
        api.check(fd.count(p) + dd.count(p) <= 1, "no duplicate in deleted lists")
        api.check(fm.count(p) + dm.count(p) <= 1, "no duplicate in modified lists")
        for q in paths:
            exp_moved = ina & b.inset(q, recursive) & same_id(a, p, b, q)
            if p == q:
                exp_moved = False
            pair = (p, q)
            api.check(in_any(pair, fmv, dmv) == exp_moved, "moved <=> same inode under a different path")
            api.check((not (pair in dmv)) | a.isdir[p], "dirs_moved holds directories")
            api.check((not (pair in fmv)) | (not a.isdir[p]), "files_moved holds files")
            api.check(fmv.count(pair) + dmv.count(pair) <= 1, "no duplicate in moved lists")
        # path accounting: (ref - deleted - moved.src) + created + moved.dst == new
        src_moved = False
        dst_moved = False
        for q in paths:
            src_moved = src_moved | in_any((p, q), fmv, dmv)
            dst_moved = dst_moved | in_any((q, p), fmv, dmv)
        survives = ina & (not in_any(p, fd, dd)) & (not src_moved)
        api.check((survives | in_any(p, fc, dc) | dst_moved) == inb, "path accounting reproduces the new path set")
    # nothing outside the universe is reported
    api.check(len(fc) + len(dc) + len(fd) + len(dd) + len(fm) + len(dm) <= 3 * len(paths), "list sizes bounded")


def h_self_swap(n, recursive, as_bytes):
    paths = universe(n, as_bytes)
    a = Side("A", paths, n)
    b = Side("B", paths, n)
    for p in paths:
        for q in paths:
            api.assume((not (a.present[p] & b.present[q] & same_id(a, p, b, q))) | (a.isdir[p] == b.isdir[q]))
    ref = DirectorySnapshot(paths[0], recursive=recursive, stat=a.stat, listdir=a.listdir)
    new = DirectorySnapshot(paths[0], recursive=recursive, stat=b.stat, listdir=b.listdir)
    d0 = DirectorySnapshotDiff(ref, ref)
    api.check(len(d0.files_created) + len(d0.files_deleted) + len(d0.files_modified) + len(d0.files_moved)
              + len(d0.dirs_created) + len(d0.dirs_deleted) + len(d0.dirs_modified) + len(d0.dirs_moved) == 0,
              "self-diff is empty")
    d1 = DirectorySnapshotDiff(ref, new)
    d2 = DirectorySnapshotDiff(new, ref)
    d3 = new - ref  # operator form: must equal DirectorySnapshotDiff(ref, new)
    api.reach("three diffs computed")
    for p in paths:
        api.check((p in d1.files_created) == (p in d2.files_deleted), "swap: created <-> deleted (files)")
        api.check((p in d1.dirs_created) == (p in d2.dirs_deleted), "swap: created <-> deleted (dirs)")
        api.check((p in d1.files_deleted) == (p in d2.files_created), "swap: deleted <-> created (files)")
        api.check((p in d1.dirs_deleted) == (p in d2.dirs_created), "swap: deleted <-> created (dirs)")
        api.check((p in d1.files_created) == (p in d3.files_created), "snapshot subtraction equals the diff")
        api.check((p in d1.dirs_deleted) == (p in d3.dirs_deleted), "snapshot subtraction equals the diff")
        for q in paths:
            api.check(((p, q) in d1.files_moved) == ((q, p) in d2.files_moved), "swap reverses moves (files)")
            api.check(((p, q) in d1.dirs_moved) == ((q, p) in d2.dirs_moved), "swap reverses moves (dirs)")
            api.check(((p, q) in d1.dirs_moved) == ((p, q) in d3.dirs_moved), "snapshot subtraction equals the diff")


def h_ignore_device(n, recursive):
    """with ignore_device a pure change of device id is no change"""
    paths = universe(n)
    a = Side("A", paths, n)
    b = Side("B", paths, n)
    for p in paths:
        api.assume(a.present[p] == b.present[p])
        api.assume(a.isdir[p] == b.isdir[p])
        api.assume(a.ino[p] == b.ino[p])
        api.assume(a.mtime[p] == b.mtime[p])
        api.assume(a.size[p] == b.size[p])
    ref = DirectorySnapshot(paths[0], recursive=recursive, stat=a.stat, listdir=a.listdir)
    new = DirectorySnapshot(paths[0], recursive=recursive, stat=b.stat, listdir=b.listdir)
    d = DirectorySnapshotDiff(ref, new, ignore_device=True)
    api.reach("diff computed")
    api.check(len(d.files_created) + len(d.files_deleted) + len(d.files_modified) + len(d.files_moved)
              + len(d.dirs_created) + len(d.dirs_deleted) + len(d.dirs_modified) + len(d.dirs_moved) == 0,
              "ignore_device: a pure change of device id is no change")
    # and the device change is really possible inside the assumptions (vacuity)
    differs = False
    for p in paths:
        differs = differs | (a.present[p] & (a.dev[p] != b.dev[p]))
    if differs:
        api.reach("some device id differs")


# ------------------------------------------------------------------------------------- check driver


def check(rep):
    from ..driver import run_sessions
    quick = rep.tier == "quick"
    n = 6 if quick else 8
    m = 5 if quick else 7
    mod = __name__
    specs = [
        dict(name=f"laws n={n} recursive", module=mod, harness="h_laws", args=(n, True, False, False)),
        dict(name=f"laws n={n} non-recursive", module=mod, harness="h_laws", args=(n, False, False, False)),
        dict(name=f"laws n={m} recursive ignore_device (equal devices)", module=mod, harness="h_laws",
             args=(m, True, True, False)),
        dict(name=f"self/swap n={m}", module=mod, harness="h_self_swap", args=(m, True, False)),
        dict(name=f"ignore_device n={m}", module=mod, harness="h_ignore_device", args=(m, True)),
    ]
    if not quick:
        specs.append(dict(name=f"laws n={m} recursive bytes paths", module=mod, harness="h_laws",
                          args=(m, True, False, True)))
        specs.append(dict(name=f"self/swap n={m} non-recursive bytes", module=mod, harness="h_self_swap",
                          args=(m, False, True)))
        for sp in specs:
            sp["cross_check"] = True
            sp["query_timeout_s"] = 1500
    for sp in specs:
        sp["jobs"] = 4 if quick else 6
    res = run_sessions(specs, workers=len(specs) if quick else 4)
    rep.add_results(res)
    rep.bounds = {"paths_in_universe": n, "paths_in_secondary_harnesses": m, "names": ["a", "b"], "max_depth": 3,
                  "inode_pool": f"1..{n} as bit-vector identifiers", "devices": [1, 2], "mtime_values": [10, 20],
                  "size_values": [0, 5]}
    rep.outside = ["universes with more paths / deeper trees", "hard links (two paths with one inode; excluded by the statement)",
                   "iteration order of Python sets (the VM iterates in insertion order)",
                   "ignore_device together with differing device ids and simultaneous moves (only the statement's "
                   "'pure device change' law is claimed)"]
    rep.stubs = ["stat/listdir injected through DirectorySnapshot's own parameters (symbolic tree)",
                 "stat.S_ISDIR, os.path.join, contextlib.suppress run natively on concrete values"]
    rep.assumptions = [
        "each tree is closed under parents; root present and a directory",
        "per snapshot (inode, device) is injective on present paths (the statement's 'every inode has one path')",
        "equal (inode, device) on both sides implies equal kind",
        "h_laws with ignore_device=True assumes all device ids equal (general laws); the pure-device-change law is a separate harness",
    ]
