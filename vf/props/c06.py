"""C06 - no API call order deadlocks; stop()+join() always ends every library thread.

Engine B over the real BaseObserver/EventDispatcher/EventEmitter/BaseThread/SkipRepeatsQueue and the
interpreted stdlib queue.Queue, with a scripted emitter that waits on its stop flag.  Programs (small, see
bounds): schedule; start; [queue one event]; stop; join - issued by the application thread; a second stop().
Only this slice of the property is decided: scripted emitter, no re-entrant calls from handlers, no real
inotify/polling emitter.
"""
from __future__ import annotations

from watchdog.events import FileCreatedEvent, FileSystemEventHandler
from watchdog.observers.api import BaseObserver, EventEmitter, ObservedWatch

from .. import api


class ScriptedEmitter(EventEmitter):
    """queues the scripted events once, then sleeps on the stop flag (as a quiet real emitter does)"""

    script = ()

    def queue_events(self, timeout):
        for e in self.script:
            self.queue_event(e)
        self.stopped_event.wait()


class OneEventEmitter(ScriptedEmitter):
    script = (FileCreatedEvent("/p/x"),)


class Rec(FileSystemEventHandler):
    def __init__(self):
        self.got = []

    def dispatch(self, event):
        self.got.append(event)


def h_stop(with_event, double_stop):
    obs = BaseObserver(OneEventEmitter if with_event else ScriptedEmitter)
    h = Rec()
    obs.schedule(h, "/p")
    obs.start()
    emitters = list(obs.emitters)
    obs.stop()
    if double_stop:
        obs.stop()
    obs.join()
    api.reach("stop and join returned")
    api.check(not obs.is_alive(), "the observer thread has exited after stop()+join()")
    for e in emitters:
        api.check(not e.is_alive(), "every emitter thread has exited after stop()+join()")
    api.check(len(h.got) <= 1, "an event is dispatched at most once")


def setup(vm):
    vm.native_classes.add(ObservedWatch)


def check(rep):
    from ..driver import run_sessions
    mod = __name__
    quick = rep.tier == "quick"
    specs = [dict(name="schedule; start; stop; join (idle emitter)", module=mod, harness="h_stop", args=(False, False), steps=34)]
    if not quick:
        specs.append(dict(name="schedule; start; stop; stop; join (emitter queues one event)", module=mod, harness="h_stop",
                          args=(True, True), steps=50))
    for sp in specs:
        sp.update(setup="setup", encode=("watchdog", "queue"), racy=[("EventQueue", "_last_item")], jobs=5,
                  query_timeout_s=900 if quick else 3000, loop_bound=60)
    res = run_sessions(specs, workers=len(specs))
    rep.add_results(res)
    rep.bounds = {"programs": [sp["name"] for sp in specs], "steps_K": [sp["steps"] for sp in specs]}
    rep.outside = ["re-entrant API calls from handler callbacks", "real inotify / polling emitters", "other call orders "
                   "(unschedule, unschedule_all, schedule while running)", "stop() after the watched root disappeared"]
    rep.stubs = ["threading models; scripted emitter class; stdlib queue.Queue interpreted"]
    rep.assumptions = ["scheduling points: lock/mutex acquisitions, wait resumptions, joins, Event flag accesses, thread "
                       "liveness reads, every access to the event queue's _last_item"]
