"""C06 - no API call order deadlocks; stop()+join() always ends every library thread.

Engine B over the real BaseObserver/EventDispatcher/EventEmitter/BaseThread/SkipRepeatsQueue and the
interpreted stdlib queue.Queue, with a scripted emitter that waits on its stop flag.  Programs (small, see
bounds): schedule; start; [queue one event]; stop; join - issued by the application thread; a second stop().
Only this slice of the property is decided: scripted emitter, no re-entrant calls from handlers, no real
inotify/polling emitter.
"""
from __future__ import annotations

from watchdog.events import FileCreatedEvent, FileSystemEventHandler
from watchdog.observers.api import BaseObserver, EventEmitter, ObservedWatch

from .. import api


class ScriptedEmitter(EventEmitter):
    """queues the scripted events once, then sleeps on the stop flag (as a quiet real emitter does)"""

    script = ()

    def queue_events(self, timeout):
        for e in self.script:
            self.queue_event(e)
        self.stopped_event.wait()


class OneEventEmitter(ScriptedEmitter):
    script = (FileCreatedEvent("/p/x"),)


class Rec(FileSystemEventHandler):
    def __init__(self):
        self.got = []

    def dispatch(self, event):
        self.got.append(event)


def h_stop(with_event, double_stop):
    obs = BaseObserver(OneEventEmitter if with_event else ScriptedEmitter)
    h = Rec()
    obs.schedule(h, "/p")
    obs.start()
    emitters = list(obs.emitters)
    obs.stop()
    if double_stop:
        obs.stop()
    obs.join()
    api.reach("stop and join returned")
    api.check(not obs.is_alive(), "the observer thread has exited after stop()+join()")
    for e in emitters:
        api.check(not e.is_alive(), "every emitter thread has exited after stop()+join()")
    api.check(len(h.got) <= 1, "an event is dispatched at most once")


class Caller(FileSystemEventHandler):
    """a handler that makes one API call on its own observer from inside the callback"""

    def __init__(self, world):
        self.world = world
        self.got = 0

    def dispatch(self, event):
        w = self.world
        self.got += 1
        if self.got == 1:
            if w.action == "stop":
                w.obs.stop()
            elif w.action == "unschedule":
                w.obs.unschedule(w.watch)
            elif w.action == "unschedule_all":
                w.obs.unschedule_all()
            elif w.action == "schedule":
                w.obs.schedule(Rec(), "/q")
            w.returned = True


class W:
    def __init__(self):
        self.obs = None
        self.watch = None
        self.action = None
        self.returned = False


def h_reentrant(action):
    """schedule (emitter queues one event); start; the handler calls `action` on its own observer; stop; join"""
    w = W()
    w.action = action
    w.obs = BaseObserver(OneEventEmitter)
    h = Caller(w)
    w.watch = w.obs.schedule(h, "/p")
    emitters = list(w.obs.emitters)
    w.obs.start()
    w.obs.stop()
    w.obs.join()
    api.reach("stop and join returned")
    api.check(not w.obs.is_alive(), "the observer thread has exited after stop()+join()")
    for e in emitters:
        api.check(not e.is_alive(), "every emitter thread has exited after stop()+join()")
    for e in list(w.obs.emitters):
        api.check(not e.is_alive(), "every emitter thread has exited after stop()+join()")
    if h.got >= 1:
        api.reach("the handler made its re-entrant call")
        api.check(w.returned, "a re-entrant API call from a callback returns")


def h_running(order):
    """API calls on a running observer from the application thread, in the given order, then stop; join"""
    obs = BaseObserver(OneEventEmitter)
    h = Rec()
    watch = obs.schedule(h, "/p")
    emitters = list(obs.emitters)
    obs.start()
    for op in order:
        if op == "unschedule":
            obs.unschedule(watch)
        elif op == "unschedule_all":
            obs.unschedule_all()
        elif op == "stop":
            obs.stop()
    obs.stop()
    obs.join()
    api.reach("stop and join returned")
    api.check(not obs.is_alive(), "the observer thread has exited after stop()+join()")
    for e in emitters:
        api.check(not e.is_alive(), "every emitter thread has exited after stop()+join()")


def setup(vm):
    vm.native_classes.add(ObservedWatch)


def check(rep):
    from ..driver import run_sessions
    mod = __name__
    quick = rep.tier == "quick"
    specs = [dict(name="schedule; start; stop; join (idle emitter)", module=mod, harness="h_stop", args=(False, False), steps=34),
             dict(name="schedule; start; stop; join (emitter queues one event)", module=mod, harness="h_stop",
                  args=(True, False), steps=36)]
    if not quick:
        specs.append(dict(name="schedule; start; stop; stop; join (emitter queues one event)", module=mod, harness="h_stop",
                          args=(True, True), steps=40))
        specs.append(dict(name="schedule; start; handler calls stop() from its callback; stop; join", module=mod,
                          harness="h_reentrant", args=("stop",), steps=40))
        specs.append(dict(name="schedule; start; unschedule; stop; join (application thread)", module=mod,
                          harness="h_running", args=(("unschedule",),), steps=40))
    for sp in specs:
        sp.update(setup="setup", encode=("watchdog", "queue"), racy=[("EventQueue", "_last_item")], jobs=5,
                  query_timeout_s=900 if quick else 3000, loop_bound=60)
    res = run_sessions(specs, workers=len(specs))
    rep.add_results(res)
    rep.bounds = {"programs": [sp["name"] for sp in specs], "steps_K": [sp["steps"] for sp in specs]}
    rep.outside = ["schedule() on a running observer (objects allocated at schedule-dependent steps do not merge; see "
                   "DESIGN.md 0.3)", "the real inotify / polling emitters over the kernel model and stop() after the watched "
                   "root disappeared", "other call orders and more than one watch", "livelock through timed waits (only "
                   "deadlock - nobody enabled, no timed waiter - is an obligation)", "schedules longer than K steps"]
    rep.stubs = ["threading models; scripted emitter classes (wait on the stop flag; optionally queue one event first); "
                 "stdlib queue.Queue interpreted"]
    rep.assumptions = ["scheduling points: lock/mutex acquisitions, wait resumptions, joins, Event flag accesses, thread "
                       "liveness reads, every access to the event queue's _last_item"]
