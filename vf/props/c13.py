"""C13 - the observer's registry stays consistent over any call sequence; failed calls leave no trace.

Symbolic: a sequence of L API calls (operation, handler, watch per position), the position at which an
emitter's constructor or start-up raises.  Real code: BaseObserver.* (schedule, unschedule,
add/remove_handler_for_watch, unschedule_all, start, stop, dispatch_events, _add/_remove/_clear_emitters),
ObservedWatch, EventEmitter.__init__, BaseThread.start/stop, EventDispatcher.*, SkipRepeatsQueue and the
interpreted stdlib queue.Queue.  Single-threaded (Thread.start only records; prims.py).
Oracle: a reference map watch -> handler set kept by the harness.
"""
from __future__ import annotations

from functools import partial

from watchdog.events import FileCreatedEvent
from watchdog.observers.api import BaseObserver, EventEmitter, ObservedWatch

from .. import api

PATHS = ("/p0", "/p1")
OPS = ("schedule", "unschedule", "add_handler", "remove_handler", "unschedule_all", "start", "stop")


class Fault:
    def __init__(self):
        self.now = -1
        self.ctor_at = -2
        self.start_at = -2
        self.created = 0


class FEmitter(EventEmitter):
    """scripted emitter whose constructor / start-up can be made to fail"""

    def __init__(self, event_queue, watch, *, timeout=1.0, event_filter=None, fault=None):
        if fault.ctor_at == fault.now:
            raise OSError(28, "injected: emitter cannot be created")
        super().__init__(event_queue, watch, timeout=timeout, event_filter=event_filter)
        self.fault = fault
        fault.created += 1

    def on_thread_start(self):
        if self.fault.start_at == self.fault.now:
            raise OSError(2, "injected: emitter cannot be started")


class H:
    def __init__(self, name, log):
        self.name = name
        self.log = log

    def dispatch(self, event):
        self.log.append((self.name, event))


class OneShotQueue:
    """hands one (event, watch) entry to dispatch_events"""

    def __init__(self, entry):
        self.entry = entry
        self.done = 0

    def get(self, block=True, timeout=None):
        return self.entry

    def task_done(self):
        self.done += 1


def h_registry(length, with_faults):
    fault = Fault()
    obs = BaseObserver(partial(FEmitter, fault=fault))
    log = []
    handlers = (H("h0", log), H("h1", log))
    watches = []
    for p in PATHS:
        for rec in (False, True):
            watches.append(ObservedWatch(p, recursive=rec))
    if with_faults:
        fault.ctor_at = api.choice("ctor_fault_at", tuple(range(-1, length)))
        fault.start_at = api.choice("start_fault_at", tuple(range(-1, length)))
    # reference model: ref[watch index][handler index] (scheduled iff sched[watch index])
    sched = [False, False, False, False]
    ref = [[False, False], [False, False], [False, False], [False, False]]
    running = False
    over = False  # the modelled history ends at stop() or at a failed start()
    for i in range(length):
        fault.now = i
        op = api.choice("op" + str(i), OPS)
        wi = api.choice("w" + str(i), (0, 1, 2, 3))
        hi = api.choice("h" + str(i), (0, 1))
        w = watches[wi]
        h = handlers[hi]
        if over:
            op = "none"
        if op == "schedule":
            raised = False
            try:
                got = obs.schedule(h, w.path, recursive=w.is_recursive)
            except OSError:
                raised = True
            must_create = not sched[wi]
            exp_raise = must_create & ((fault.ctor_at == i) | (running & (fault.start_at == i)))
            api.check(raised == exp_raise, "schedule() raises iff the emitter cannot be created or started")
            if not raised:
                api.check(got == w, "schedule() returns the watch")
                sched[wi] = True
                ref[wi][hi] = True
        elif op == "unschedule":
            raised = False
            try:
                obs.unschedule(w)
            except KeyError:
                raised = True
            api.check(raised == (not sched[wi]), "unschedule() of an unknown watch raises KeyError, otherwise succeeds")
            if not raised:
                sched[wi] = False
                ref[wi][0] = False
                ref[wi][1] = False
        elif op == "add_handler":
            api.assume(sched[wi])  # documented use: the watch is scheduled
            obs.add_handler_for_watch(h, w)
            ref[wi][hi] = True
        elif op == "remove_handler":
            api.assume(sched[wi] & ref[wi][hi])  # documented use: the handler is registered
            obs.remove_handler_for_watch(h, w)
            ref[wi][hi] = False
        elif op == "unschedule_all":
            obs.unschedule_all()
            for k in range(4):
                sched[k] = False
                ref[k][0] = False
                ref[k][1] = False
        elif op == "start":
            api.assume(not running)
            raised = False
            try:
                obs.start()
            except OSError:
                raised = True
            nsched = sched[0] | sched[1] | sched[2] | sched[3]
            api.check(raised == (nsched & (fault.start_at == i)), "start() raises iff an emitter fails to start")
            if raised:
                over = True
                api.reach("start failed")
            else:
                running = True
        elif op == "stop":
            obs.stop()
            for k in range(4):
                sched[k] = False
                ref[k][0] = False
                ref[k][1] = False
            over = True
        # ---- observable state after every call
        n = 0
        for k in range(4):
            if sched[k]:
                n += 1
        if not (over & (not running)):
            api.check(len(obs.emitters) == n, "observer.emitters are exactly the emitters of the scheduled watches")
    fault.now = length
    api.reach("history done")
    failed_start = over & (not running)
    if failed_start:
        # after a failed start() the statement only requires that cleaning up works
        obs.unschedule_all()
        obs.stop()
        for k in range(4):
            sched[k] = False
            ref[k][0] = False
            ref[k][1] = False
    api.check((not failed_start) | (len(obs.emitters) == 0), "no emitter is left after cleaning up a failed start()")
    for e in obs.emitters:
        k = watches.index(e.watch)
        api.check(sched[k], "every reported emitter belongs to a scheduled watch")
        api.check(e.is_alive() == running, "emitters run iff the observer runs")
    # marker delivery: who receives an event queued for each watch?
    for k in range(4):
        marker = FileCreatedEvent("/marker" + str(k))
        obs.dispatch_events(OneShotQueue((marker, watches[k])))
        for j in range(2):
            got = (handlers[j].name, marker) in log
            api.check(got == (sched[k] & ref[k][j]), "an event of a watch reaches exactly the handlers registered for it")
            api.check(log.count((handlers[j].name, marker)) <= 1, "at most once")


def setup(vm):
    vm.native_classes.add(ObservedWatch)  # immutable value object with __eq__/__hash__: built and compared natively


def check(rep):
    from ..driver import run_sessions
    mod = __name__
    quick = rep.tier == "quick"
    L = 3 if quick else 4
    specs = [
        dict(name=f"registry L={L} with faults", module=mod, harness="h_registry", args=(L, True),
             encode=("watchdog", "queue"), setup="setup", jobs=4, cross_check=not quick, query_timeout_s=1200),
        dict(name=f"registry L={L + 1} no faults", module=mod, harness="h_registry", args=(L + 1, False),
             encode=("watchdog", "queue"), setup="setup", jobs=4, cross_check=not quick, query_timeout_s=1200),
    ]
    res = run_sessions(specs, workers=2)
    rep.add_results(res)
    rep.bounds = {"calls": L, "calls_without_faults": L + 1, "operations": list(OPS), "paths": list(PATHS),
                  "recursive": [False, True], "handlers": 2,
                  "fault": "emitter constructor or emitter start-up raises OSError at one symbolic call position"}
    rep.outside = ["longer call sequences", "event_filter as part of the watch identity (covered by ObservedWatch.key, not varied)",
                   "API misuse the documentation excludes (add/remove handler for an unscheduled watch or unknown handler)",
                   "calls after stop(); concurrency (C04-C06)"]
    rep.stubs = ["threading primitives in sequential mode (prims.py): Thread.start only records, join marks the thread finished",
                 "scripted emitter class with injectable constructor/start failure"]
    rep.assumptions = ["a failed start() ends the modelled history; afterwards only unschedule_all()/stop() are required to work (DESIGN.md 9.0)"]
