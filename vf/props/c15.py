"""C15 - handlers call exactly the callbacks the event type and the match rules dictate.

Symbolic: source/destination paths from a pool, up to two include and two exclude patterns (or regexes)
from a pool or absent / None, case_sensitive, ignore_directories; the event class is fixed per session.
Real code: FileSystemEventHandler.dispatch, PatternMatchingEventHandler.__init__/dispatch,
RegexMatchingEventHandler.__init__/dispatch, patterns._match_path/filter_paths/match_any_paths.
Oracle: c15_ref (pathlib / re evaluated directly, plus the documented class->callback table).
"""
from __future__ import annotations

import watchdog.events as E
from watchdog.events import FileSystemEventHandler, PatternMatchingEventHandler, RegexMatchingEventHandler
from watchdog.utils.patterns import filter_paths, match_any_paths

from .. import api
from . import c15_ref as R

ABSENT = "<absent>"

PATHS = ("/u/x.py", "/u/X.PY", "/u/d/y.txt", "x.py", "/u/d", "/u/.git/c")
PATHS_B = tuple(p.encode() for p in PATHS)
GLOBS = ("*.py", "*.PY", "*.txt", "*", "/u/*", "*/d/*", "x.py", "/u/d/*.txt", "*/.git/*")
REGEXES = (r".*\.py$", r".*\.PY", r"/u/d/.*", r".*", r"x", r".*\.git.*", r"/u/[a-z]\.py")
REGEXES_IGN = tuple(r for r in REGEXES if r != r".*")

CLASSES = tuple(R.EXPECT.keys())


class RecMixin:
    def __init__(self, **kw):
        self.calls = []
        self.first = None
        super().__init__(**kw)

    def _rec(self, name):
        if self.first is None:
            self.first = name
        self.calls.append(name)

    def on_any_event(self, event):
        self._rec("on_any_event")

    def on_moved(self, event):
        self._rec("on_moved")

    def on_created(self, event):
        self._rec("on_created")

    def on_deleted(self, event):
        self._rec("on_deleted")

    def on_modified(self, event):
        self._rec("on_modified")

    def on_closed(self, event):
        self._rec("on_closed")

    def on_closed_no_write(self, event):
        self._rec("on_closed_no_write")

    def on_opened(self, event):
        self._rec("on_opened")


class RecBase(RecMixin, FileSystemEventHandler):
    pass


class RecPat(RecMixin, PatternMatchingEventHandler):
    pass


class RecRe(RecMixin, RegexMatchingEventHandler):
    pass


def make_event(clsname, as_bytes):
    cls = getattr(E, clsname)
    pool = PATHS_B if as_bytes else PATHS
    src = api.choice("src", pool)
    if clsname in ("FileMovedEvent", "DirMovedEvent", "FileSystemMovedEvent"):
        dest = api.choice("dest", pool + ((b"" if as_bytes else ""),))
        return cls(src, dest), src, dest
    return cls(src), src, ""


def pick_list(tag, pool, maxlen):
    lst = []
    for i in range(maxlen):
        p = api.choice(tag + "." + str(i), pool + (ABSENT,))
        if p != ABSENT:
            lst.append(p)
    return lst


def check_calls(h, exp, cb, what):
    api.check((len(h.calls) == 2) == exp, what + ": dispatched iff the rule says so (on_any_event + one on_<type>)")
    api.check((len(h.calls) == 0) == (not exp), what + ": nothing is called otherwise")
    api.check((not exp) | (h.first == "on_any_event"), what + ": on_any_event is called first")
    api.check((not exp) | (h.calls.count(cb) == 1), what + ": exactly the callback named by the event type")


def h_base(clsname, as_bytes):
    ev, src, dest = make_event(clsname, as_bytes)
    h = RecBase()
    h.dispatch(ev)
    api.reach("dispatched")
    check_calls(h, True, R.expected_callback(clsname), "base handler")
    api.check(ev.is_directory == R.expected_isdir(clsname), "is_directory flavour of the class")


def h_pattern(clsname, as_bytes):
    ev, src, dest = make_event(clsname, as_bytes)
    cs = api.choice("case_sensitive", (True, False))
    igd = api.choice("ignore_directories", (True, False))
    inc_none = api.sym_bool("inc.none")
    exc_none = api.sym_bool("exc.none")
    inc = pick_list("inc", GLOBS, 2)
    exc = pick_list("exc", GLOBS, 2)
    h = RecPat(patterns=None if inc_none else inc, ignore_patterns=None if exc_none else exc,
               ignore_directories=igd, case_sensitive=cs)
    raised = False
    try:
        h.dispatch(ev)
    except ValueError:
        raised = True
    api.reach("pattern dispatch done")
    # ---- oracle
    ignored = igd & R.expected_isdir(clsname)
    conflict = False
    if not exc_none:
        for q in exc:
            if inc_none:
                conflict = conflict | (q == "*")
            else:
                for p in inc:
                    if cs:
                        conflict = conflict | (p == q)
                    else:
                        conflict = conflict | (R.lower(p) == R.lower(q))
    hit = False
    for path in (dest, src):
        if path is dest or path != "":     # dest_path is always consulted, src_path only when non-empty
            m_inc = False
            if inc_none:
                m_inc = R.glob_match(path, "*", cs)
            else:
                for p in inc:
                    m_inc = m_inc | R.glob_match(path, p, cs)
            m_exc = False
            if not exc_none:
                for q in exc:
                    m_exc = m_exc | R.glob_match(path, q, cs)
            hit = hit | (m_inc & (not m_exc))
    api.check(raised == (conflict & (not ignored)), "a pattern both included and excluded is rejected with ValueError")
    if not raised:
        check_calls(h, hit & (not ignored) & (not conflict), R.expected_callback(clsname), "pattern handler")
    if raised:
        api.check(len(h.calls) == 0, "nothing dispatched when the patterns are rejected")
        api.reach("conflict raised")


def h_regex(clsname, as_bytes):
    ev, src, dest = make_event(clsname, as_bytes)
    cs = api.choice("case_sensitive", (True, False))
    igd = api.choice("ignore_directories", (True, False))
    inc_none = api.sym_bool("inc.none")
    exc_none = api.sym_bool("exc.none")
    inc = pick_list("inc", REGEXES, 2)
    exc = pick_list("exc", REGEXES_IGN, 2)
    h = RecRe(regexes=None if inc_none else inc, ignore_regexes=None if exc_none else exc,
              ignore_directories=igd, case_sensitive=cs)
    h.dispatch(ev)
    api.reach("regex dispatch done")
    ignored = igd & R.expected_isdir(clsname)
    any_inc = False
    any_exc = False
    for path in (dest, src):
        if path is dest or path != "":
            if inc_none:
                any_inc = any_inc | R.regex_match(path, r".*", cs)
            else:
                for p in inc:
                    any_inc = any_inc | R.regex_match(path, p, cs)
            if not exc_none:
                for q in exc:
                    any_exc = any_exc | R.regex_match(path, q, cs)
    check_calls(h, any_inc & (not any_exc) & (not ignored), R.expected_callback(clsname), "regex handler")


def h_filter(as_bytes_unused):
    """filter_paths returns the sub-sequence of matching paths; match_any_paths is its any()"""
    p0 = api.choice("p0", PATHS)
    p1 = api.choice("p1", PATHS)
    cs = api.choice("case_sensitive", (True, False))
    inc_none = api.sym_bool("inc.none")
    exc_none = api.sym_bool("exc.none")
    inc = pick_list("inc", GLOBS, 2)
    exc = pick_list("exc", GLOBS, 1)
    conflict = False
    if not exc_none:
        for q in exc:
            if inc_none:
                conflict = conflict | (q == "*")
            else:
                for p in inc:
                    if cs:
                        conflict = conflict | (p == q)
                    else:
                        conflict = conflict | (R.lower(p) == R.lower(q))
    api.assume(not conflict)
    out = list(filter_paths([p0, p1], included_patterns=None if inc_none else inc,
                            excluded_patterns=None if exc_none else exc, case_sensitive=cs))
    anym = match_any_paths([p0, p1], included_patterns=None if inc_none else inc,
                           excluded_patterns=None if exc_none else exc, case_sensitive=cs)
    api.reach("filtered")
    ms = []
    for path in (p0, p1):
        m_inc = False
        if inc_none:
            m_inc = R.glob_match(path, "*", cs)
        else:
            for p in inc:
                m_inc = m_inc | R.glob_match(path, p, cs)
        m_exc = False
        if not exc_none:
            for q in exc:
                m_exc = m_exc | R.glob_match(path, q, cs)
        ms.append(m_inc & (not m_exc))
    m0 = ms[0]
    m1 = ms[1]
    api.check((len(out) == 2) == (m0 & m1), "filter_paths keeps exactly the matching paths")
    api.check((len(out) == 0) == ((not m0) & (not m1)), "filter_paths keeps exactly the matching paths")
    if m0:
        api.check(out[0] == p0, "filter_paths preserves order (sub-sequence)")
    if m1:
        api.check(out[-1] == p1, "filter_paths preserves order (sub-sequence)")
    api.check(anym == (m0 | m1), "match_any_paths <=> some path passes the filter")


# ------------------------------------------------------------------------------------- check driver


def check(rep):
    from ..driver import run_sessions
    quick = rep.tier == "quick"
    mod = __name__
    specs = []
    for c in CLASSES:
        specs.append(dict(name=f"base {c}", module=mod, harness="h_base", args=(c, False)))
    specs.append(dict(name="base FileMovedEvent bytes", module=mod, harness="h_base", args=("FileMovedEvent", True)))
    pat_classes = ("FileMovedEvent", "DirMovedEvent", "FileCreatedEvent", "DirDeletedEvent") if quick else CLASSES
    for c in pat_classes:
        specs.append(dict(name=f"pattern {c}", module=mod, harness="h_pattern", args=(c, False)))
        specs.append(dict(name=f"regex {c}", module=mod, harness="h_regex", args=(c, False)))
    specs.append(dict(name="pattern FileMovedEvent bytes", module=mod, harness="h_pattern", args=("FileMovedEvent", True)))
    specs.append(dict(name="regex DirMovedEvent bytes", module=mod, harness="h_regex", args=("DirMovedEvent", True)))
    specs.append(dict(name="filter_paths", module=mod, harness="h_filter", args=(False,)))
    for sp in specs:
        sp["jobs"] = 2
        if not quick:
            sp["cross_check"] = True
    res = run_sessions(specs, workers=12)
    rep.add_results(res)
    rep.bounds = {"event_classes": list(CLASSES), "classes_for_pattern_and_regex_rules": list(pat_classes),
                  "path_pool": list(PATHS) + ["" + "(dest only)"], "glob_pool": list(GLOBS), "regex_pool": list(REGEXES),
                  "patterns_per_list": "0..2 include, 0..2 exclude (filter_paths: 0..1 exclude), or None",
                  "flags": ["case_sensitive", "ignore_directories"], "bytes_paths": "FileMovedEvent/DirMovedEvent sessions"}
    rep.outside = ["paths and patterns outside the pools (in particular patterns that match the empty path, "
                   "see DESIGN.md 9.0)", "more than two patterns per list", "custom subclasses overriding dispatch"]
    rep.stubs = ["pathlib.PurePath.match, re.compile/match, os.fsdecode, str.lower run natively on concrete values "
                 "(lifted over the alternatives)"]
    rep.assumptions = ["the oracle's match(path, pattern) is pathlib's / re's own answer computed directly",
                       "dest_path is always consulted (possibly empty), src_path only when non-empty, as documented",
                       "ignore regex pool excludes '.*' (would match the empty dest path; design decision 9.0)"]
