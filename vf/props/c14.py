"""C14 - synthetic events for a moved / arrived directory name every descendant once and correctly.

Part 1 (SBVM, this file): the real generate_sub_moved_events / generate_sub_created_events over a
symbolic tree (presence and kind of every node symbolic) whose names are chosen to collide with the
path prefix being rewritten; source/destination spellings from a pool (relative, dotted, absolute,
trailing slash; str and bytes).  os.walk is replaced by a top-down walk of the symbolic tree.
Part 2 (CrossHair, crosshair_harness/c14_ch.py): the same real functions on genuinely symbolic
strings (arbitrary names up to a length bound) over a fixed two-level shape.
"""
from __future__ import annotations

import os

from watchdog.events import (DirCreatedEvent, DirMovedEvent, FileCreatedEvent, FileMovedEvent,
                             generate_sub_created_events, generate_sub_moved_events)

from .. import api

NAMES = ("a", "b", "ab")
# (source directory, destination directory) spellings; names inside the tree repeat both
SPELLINGS = (("a", "b"), ("b", "a"), ("a", "ab"), ("ab", "a"), ("./a", "./b"), ("/t/a", "/t/b"), ("/t/b", "/t/a"),
             ("/a/b", "/a/a"), ("a/", "b/"), ("x/a", "x/b"))


def rel_nodes(depth2):
    """relative paths (tuples of names) of the node universe: depth 1 and (optionally) depth 2"""
    out = []
    for n in NAMES:
        out.append((n,))
    if depth2:
        for n in NAMES[:2]:
            for m in NAMES:
                out.append((n, m))
    return tuple(out)


class Tree:
    def __init__(self, nodes):
        self.nodes = nodes
        self.present = {}
        self.isdir = {}
        i = 0
        for r in nodes:
            self.present[r] = api.sym_bool("present." + str(i))
            self.isdir[r] = api.sym_bool("isdir." + str(i))
            i += 1
        for r in nodes:
            if len(r) == 2:
                api.assume((not self.present[r]) | (self.present[r[:1]] & self.isdir[r[:1]]))

    def walk(self, top, sep):
        """what os.walk(top) yields for this tree (top-down, directories as given)"""
        out = []
        dirs = []
        files = []
        for r in self.nodes:
            if len(r) == 1:
                if self.present[r]:
                    nm = r[0] if isinstance(top, str) else r[0].encode()
                    if self.isdir[r]:
                        dirs.append(nm)
                    else:
                        files.append(nm)
        out.append((top, dirs, files))
        for r in self.nodes:
            if len(r) == 1:
                if self.present[r] & self.isdir[r]:
                    nm = r[0] if isinstance(top, str) else r[0].encode()
                    sub = os.path.join(top, nm)
                    d2 = []
                    f2 = []
                    for q in self.nodes:
                        if len(q) == 2 and q[0] == r[0]:
                            if self.present[q]:
                                nm2 = q[1] if isinstance(top, str) else q[1].encode()
                                if self.isdir[q]:
                                    d2.append(nm2)
                                else:
                                    f2.append(nm2)
                    out.append((sub, d2, f2))
        return out


_CUR = {}


def set_tree(tree):
    """make `tree` the file system seen by os.walk (native mode; the VM intercepts this call)"""
    _CUR["tree"] = tree


def fake_walk(top, *args, **kwargs):
    return _CUR["tree"].walk(top, None)


def comes_before(evs, a, b):
    """every occurrence of b in evs is preceded by an occurrence of a (branch-free)"""
    seen_a = False
    ok = True
    for x in evs:
        ok = ok & ((not (x == b)) | seen_a)
        seen_a = seen_a | (x == a)
    return ok


def all_in(evs, expected):
    ok = True
    for x in evs:
        ok = ok & (x in expected)
    return ok


def join_rel(base, rel):
    p = base
    for nm in rel:
        p = os.path.join(p, nm if isinstance(base, str) else nm.encode())
    return p


def h_moved(depth2, as_bytes, first, last):
    tree = Tree(rel_nodes(depth2))
    for sp in SPELLINGS[first:last]:
        moved_one(tree, sp, as_bytes)


def moved_one(tree, sp, as_bytes):
    src, dest = sp
    if as_bytes:
        src = os.fsencode(src)
        dest = os.fsencode(dest)
    set_tree(tree)
    evs = list(generate_sub_moved_events(src, dest))
    api.reach("generated")
    n = []
    for r in tree.nodes:
        exp_dest = join_rel(dest, r)
        exp_src = join_rel(src, r)
        if tree.isdir[r]:
            e = DirMovedEvent(exp_src, exp_dest, is_synthetic=True)
            wrong = FileMovedEvent(exp_src, exp_dest, is_synthetic=True)
        else:
            e = FileMovedEvent(exp_src, exp_dest, is_synthetic=True)
            wrong = DirMovedEvent(exp_src, exp_dest, is_synthetic=True)
        c = evs.count(e)
        api.check((c == 1) == tree.present[r], "exactly one synthetic moved event per descendant, with old-prefix source and real destination")
        api.check((c == 0) | (c == 1), "no duplicate synthetic moved event")
        api.check(evs.count(wrong) == 0, "file/directory flavour matches the entry's kind")
        if tree.present[r]:
            n.append(e)
        if len(r) == 2:
            if tree.present[r]:
                parent = DirMovedEvent(join_rel(src, r[:1]), join_rel(dest, r[:1]), is_synthetic=True)
                api.check(comes_before(evs, parent, e), "a parent's event comes before its children's")
    api.check(all_in(evs, n), "nothing but the descendants is reported")


def h_created(depth2, as_bytes, first, last):
    tree = Tree(rel_nodes(depth2))
    for sp in SPELLINGS[first:last]:
        created_one(tree, sp, as_bytes)


def created_one(tree, sp, as_bytes):
    top = sp[1]
    if as_bytes:
        top = os.fsencode(top)
    set_tree(tree)
    evs = list(generate_sub_created_events(top))
    api.reach("generated")
    n = []
    for r in tree.nodes:
        p = join_rel(top, r)
        if tree.isdir[r]:
            e = DirCreatedEvent(p, is_synthetic=True)
            wrong = FileCreatedEvent(p, is_synthetic=True)
        else:
            e = FileCreatedEvent(p, is_synthetic=True)
            wrong = DirCreatedEvent(p, is_synthetic=True)
        c = evs.count(e)
        api.check((c == 1) == tree.present[r], "exactly one synthetic created event per descendant")
        api.check((c == 0) | (c == 1), "no duplicate synthetic created event")
        api.check(evs.count(wrong) == 0, "file/directory flavour matches the entry's kind")
        if tree.present[r]:
            n.append(e)
        if len(r) == 2:
            if tree.present[r]:
                parent = DirCreatedEvent(join_rel(top, r[:1]), is_synthetic=True)
                api.check(comes_before(evs, parent, e), "a parent's event comes before its children's")
    api.check(all_in(evs, n), "nothing but the descendants is reported")


def setup(vm):
    import vf.props.c14 as me

    def set_tree_model(vm, s, args, kw):
        vm.c14_tree = args[0]
        return None

    def walk_model(vm, s, args, kw):
        from ..vm import _Pending
        return _Pending(vm.do_call(s, me.Tree.walk, [vm.c14_tree, args[0], None], {}, ("push",)))
    vm.register_model(me.set_tree, set_tree_model)
    vm.register_model(os.walk, walk_model)


def native_ctx():
    from unittest import mock
    return mock.patch("os.walk", fake_walk)


def check(rep):
    from ..driver import run_sessions
    from . import c14_crosshair
    mod = __name__
    quick = rep.tier == "quick"
    specs = []
    for harness in ("h_moved", "h_created"):
        for as_bytes in (False, True):
            for first in range(0, len(SPELLINGS), 5):
                specs.append(dict(name=f"{harness} bytes={as_bytes} spellings {first}..{first + 4}", module=mod,
                                  harness=harness, args=(True, as_bytes, first, first + 5),
                                  setup="setup", native_ctx="native_ctx", jobs=2, cross_check=not quick))
    import concurrent.futures as cf
    with cf.ThreadPoolExecutor(max_workers=1) as ex:
        fut = ex.submit(c14_crosshair.run, quick)
        res = run_sessions(specs, workers=8)
        ch = fut.result()
    rep.add_results(res)
    c14_crosshair.fold(rep, ch)
    rep.bounds = {"names": list(NAMES), "nodes": "3 at depth 1 + 6 at depth 2, presence and kind symbolic",
                  "spellings(src,dest)": [list(x) for x in SPELLINGS], "path_types": ["str", "bytes"],
                  "crosshair": ch.get("bounds")}
    rep.outside = ["trees deeper than two levels below the moved directory", "names longer than the CrossHair bound",
                   "symlink loops (os.walk does not follow links by default)",
                   "the third occurrence of the prefix rewrite (watch re-keying in Inotify.read_events) is covered by C02"]
    rep.stubs = ["os.walk -> top-down walk of the symbolic tree (VM) / of a symbolic two-level tree (CrossHair)"]
    rep.assumptions = ["a depth-2 node exists only below an existing directory"]
