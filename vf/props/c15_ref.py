"""Independent reference evaluators for C15 (run natively, never interpreted by the VM)."""
import re
from pathlib import PurePosixPath, PureWindowsPath

ON = {
    "moved": "on_moved", "deleted": "on_deleted", "created": "on_created", "modified": "on_modified",
    "closed": "on_closed", "closed_no_write": "on_closed_no_write", "opened": "on_opened",
}

# class name -> (callback, is_directory); written from the documentation, not read from the classes
EXPECT = {
    "FileSystemMovedEvent": ("on_moved", False),
    "FileDeletedEvent": ("on_deleted", False),
    "FileModifiedEvent": ("on_modified", False),
    "FileCreatedEvent": ("on_created", False),
    "FileMovedEvent": ("on_moved", False),
    "FileClosedEvent": ("on_closed", False),
    "FileClosedNoWriteEvent": ("on_closed_no_write", False),
    "FileOpenedEvent": ("on_opened", False),
    "DirDeletedEvent": ("on_deleted", True),
    "DirModifiedEvent": ("on_modified", True),
    "DirCreatedEvent": ("on_created", True),
    "DirMovedEvent": ("on_moved", True),
}


def expected_callback(clsname):
    return EXPECT[clsname][0]


def expected_isdir(clsname):
    return EXPECT[clsname][1]


def glob_match(path, pattern, case_sensitive):
    """pathlib's own answer"""
    if isinstance(path, bytes):
        import os
        path = os.fsdecode(path)
    if case_sensitive:
        return PurePosixPath(path).match(pattern)
    return PureWindowsPath(path).match(pattern.lower())


def regex_match(path, regex, case_sensitive):
    if isinstance(path, bytes):
        import os
        path = os.fsdecode(path)
    return re.match(regex, path, 0 if case_sensitive else re.IGNORECASE) is not None


def lower(s):
    return s.lower()
