"""Shared harness of the history properties C01, C02, C03, C07, C19: the real inotify pipeline
(Inotify.__init__/_add_dir_watch/_add_watch/read_events/_recursive_simulate, InotifyBuffer.run/_group_events,
DelayedQueue.put/get/remove, InotifyEmitter.on_thread_start/queue_events, generate_sub_*_events) executed
sequentially per batch over the file-system + kernel model of vf/fsmodel.py.

Symbolic: the operation(s) - kind and operands from pools - applied to a fixed initial tree; per session:
recursive, timing mode (drain after every operation / two operations back to back), one read per event or
one read per burst, root spelling.  What each property asserts is selected by `props`."""
from __future__ import annotations

import errno
import os

from watchdog.events import (DirCreatedEvent, DirDeletedEvent, DirModifiedEvent, DirMovedEvent, FileClosedEvent,
                             FileCreatedEvent, FileDeletedEvent, FileModifiedEvent, FileMovedEvent, FileOpenedEvent)
from watchdog.observers.api import ObservedWatch
from watchdog.observers.inotify import InotifyEmitter, InotifyFullEmitter

from .. import api
from .. import fsmodel as FM

ROOT = b"/r"
TREE = ((b"/r", "d"), (b"/r/a", "d"), (b"/r/a/f", "f"), (b"/r/ab", "d"), (b"/r/b", "f"), (b"/r/e", "d"),
        (b"/o", "d"), (b"/o/g", "f"), (b"/o/x", "d"), (b"/o/x/y", "f"))
OPS = ("create", "mkdir", "write", "chmod", "unlink", "rmdir", "rename")
SRC = (b"/r/a", b"/r/a/f", b"/r/b", b"/r/e", b"/r/c", b"/o/g", b"/o/x")
DST = (b"/r/c", b"/r/a/c", b"/r/e/c", b"/o/c", b"/o/c/z", b"/r/\xff", b"/r/\xc3\xa9")


class RecQ:
    def __init__(self):
        self.items = []

    def put(self, item):
        self.items.append(item[0])


def inside(p):
    return p.startswith(ROOT + b"/")


def valid(fs, op, p, q):
    """precondition of operation `op` in the current tree"""
    if op == "create" or op == "mkdir":
        return fs.isdir(FM.parent_of(q)) & (not fs.exists(q))
    if op == "write" or op == "unlink":
        return inside(p) & fs.exists(p) & (not fs.isdir(p))
    if op == "chmod":
        return inside(p) & fs.exists(p)
    if op == "rmdir":
        return inside(p) & fs.isdir(p) & (len(fs.children(p)) == 0)
    # rename / move out / move in
    return (fs.exists(p) & (not fs.exists(q)) & fs.isdir(FM.parent_of(q)) & (inside(p) | inside(q))
            & (not q.startswith(p + b"/")))


def paced(prev, op, p, q, kind_before):
    """the pacing condition of C01/C02 for an operation issued right after `prev` without a drain in between:
    after an operation that creates, renames, moves or removes a directory, nothing may touch that directory's
    contents or re-use one of its names - except renaming the directory again right after it arrived"""
    pop, pp, pq = prev
    touched = []          # names of the directory the previous operation affected
    if pop == "mkdir":
        touched = [pq]
    elif pop == "rmdir":
        touched = [pp]
    elif pop == "rename" and kind_before == "d":
        touched = [pp, pq]
    ok = True
    for t in touched:
        for x in (p, q):
            uses = (x == t) | x.startswith(t + b"/")
            relevant = True
            if op in ("create", "mkdir") and x is p:
                relevant = False
            if op in ("write", "chmod", "unlink", "rmdir") and x is q:
                relevant = False
            if relevant:
                if (op == "rename") & (x is p) & (x == t) & (t == pq):
                    pass      # renaming the directory that has just arrived is allowed
                else:
                    ok = ok & (not uses)
    return ok


def apply(fs, op, p, q):
    if op == "create":
        fs.create(q)
    elif op == "mkdir":
        fs.mkdir(q)
    elif op == "write":
        fs.write(p)
    elif op == "chmod":
        fs.chmod(p)
    elif op == "unlink":
        fs.unlink(p)
    elif op == "rmdir":
        fs.rmdir(p)
    else:
        fs.rename(p, q)


def drain(fs, em):
    """let the reader take everything the kernel queued, then let the emitter empty the buffer"""
    buf = em._inotify
    if buf is None:
        return
    while len(fs.queue) > 0:
        buf._stopped_event.clear()
        buf.run()
    while len(buf._queue._queue) > 0:
        em.queue_events(1.0)
        if em._inotify is None:
            return


def tr(path, as_str):
    """event path for a model path, in the type the watch was given"""
    return os.fsdecode(path) if as_str else path


def expected_single(fs, before_kind, op, p, q, recursive, as_str, full):
    """the per-operation contract (statement of C03) for one operation applied to the tree `before_kind`;
    fs is the tree *after* the operation (its walk enumerates the descendants of a moved/arrived directory)"""
    exp = []

    def watched(dirpath):
        return (dirpath == ROOT) | (recursive & inside(dirpath))

    def D(x):
        return DirModifiedEvent(tr(x, as_str))
    if op == "create":
        par = FM.parent_of(q)
        if watched(par):
            exp.append(FileCreatedEvent(tr(q, as_str)))
            exp.append(D(par))
            exp.append(FileOpenedEvent(tr(q, as_str)))
            exp.append(FileClosedEvent(tr(q, as_str)))
            exp.append(D(par))
    elif op == "mkdir":
        par = FM.parent_of(q)
        if watched(par):
            exp.append(DirCreatedEvent(tr(q, as_str)))
            exp.append(D(par))
    elif op == "write":
        par = FM.parent_of(p)
        if watched(par):
            exp.append(FileOpenedEvent(tr(p, as_str)))
            exp.append(FileModifiedEvent(tr(p, as_str)))
            exp.append(FileClosedEvent(tr(p, as_str)))
            exp.append(D(par))
    elif op == "chmod":
        par = FM.parent_of(p)
        isd = before_kind[p] == "d"
        if watched(par):
            if isd:
                exp.append(D(p))
            else:
                exp.append(FileModifiedEvent(tr(p, as_str)))
        if isd & recursive:
            exp.append(D(p))     # reported through the directory's own watch as well
    elif op == "unlink":
        par = FM.parent_of(p)
        if watched(par):
            exp.append(FileDeletedEvent(tr(p, as_str)))
            exp.append(D(par))
    elif op == "rmdir":
        par = FM.parent_of(p)
        if watched(par):
            exp.append(DirDeletedEvent(tr(p, as_str)))
            exp.append(D(par))
    else:
        isd = before_kind[p] == "d"
        sp = FM.parent_of(p)
        dp = FM.parent_of(q)
        src_seen = inside(p) & watched(sp)
        dst_seen = inside(q) & watched(dp)
        if src_seen & dst_seen:
            if isd:
                exp.append(DirMovedEvent(tr(p, as_str), tr(q, as_str)))
            else:
                exp.append(FileMovedEvent(tr(p, as_str), tr(q, as_str)))
            exp.append(D(sp))
            exp.append(D(dp))
            if isd & recursive:
                for top, dirs, files in fs.walk(q):
                    for d in dirs:
                        np = top + b"/" + d
                        exp.append(DirMovedEvent(tr(p + np[len(q):], as_str), tr(np, as_str), is_synthetic=True))
                    for f in files:
                        np = top + b"/" + f
                        exp.append(FileMovedEvent(tr(p + np[len(q):], as_str), tr(np, as_str), is_synthetic=True))
        elif src_seen:
            # moved out of the watched scope: a deletion (full emitter: a half-empty moved event)
            if full:
                if isd:
                    exp.append(DirMovedEvent(tr(p, as_str), ""))
                else:
                    exp.append(FileMovedEvent(tr(p, as_str), ""))
            elif isd:
                exp.append(DirDeletedEvent(tr(p, as_str)))
            else:
                exp.append(FileDeletedEvent(tr(p, as_str)))
            exp.append(D(sp))
        elif dst_seen:
            if full:
                if isd:
                    exp.append(DirMovedEvent("", tr(q, as_str)))
                else:
                    exp.append(FileMovedEvent("", tr(q, as_str)))
            elif isd:
                exp.append(DirCreatedEvent(tr(q, as_str)))
            else:
                exp.append(FileCreatedEvent(tr(q, as_str)))
            exp.append(D(dp))
            if isd & recursive:
                for top, dirs, files in fs.walk(q):
                    for d in dirs:
                        exp.append(DirCreatedEvent(tr(top + b"/" + d, as_str), is_synthetic=True))
                    for f in files:
                        exp.append(FileCreatedEvent(tr(top + b"/" + f, as_str), is_synthetic=True))
    return exp


def same_multiset(got, exp):
    ok = True
    for e in exp:
        ok = ok & (got.count(e) == exp.count(e))
    for e in got:
        ok = ok & (e in exp)
    return ok


def replay_tree(initial, events, as_str):
    """apply created / deleted / moved events, in delivery order, to a copy of the initial tree (set of paths)"""
    tree = set(initial)
    for e in events:
        t = e.event_type
        src = os.fsencode(e.src_path) if as_str else e.src_path
        if src == "":
            src = b""     # the full emitter's half-empty moved events carry a str "" even on a bytes watch
        if t == "created":
            tree.add(src)
        elif t == "deleted":
            for x in list(tree):
                if (x == src) | x.startswith(src + b"/"):
                    tree.discard(x)
        elif t == "moved":
            dst = os.fsencode(e.dest_path) if as_str else e.dest_path
            if dst == "":
                dst = b""
            if dst == b"":
                # half-empty moved event of the full emitter: the entry left the watched scope
                for x in list(tree):
                    if (x == src) | x.startswith(src + b"/"):
                        tree.discard(x)
            elif src in tree:
                for x in list(tree):
                    if (x == src) | x.startswith(src + b"/"):
                        tree.discard(x)
                        tree.add(dst + x[len(src):])
            elif (dst != b"") & (src == b""):
                tree.add(dst)
            elif (dst != b"") & (not (dst in tree)):
                tree.add(dst)
    return tree


def h_history(props, nops, recursive, settled, one_per_read, spelling, full, first=None, fault=False):
    """spelling: 'bytes' | 'str' | 'slash' (str with a trailing slash)
    first: optional fixed first operation (op, src, dst) - a directed history: only the later operations are symbolic"""
    fs = FM.FS(ROOT, TREE)
    FM.use_fs(fs)
    fs.one_per_read = one_per_read
    as_str = spelling != "bytes"
    rootarg = ROOT if spelling == "bytes" else ("/r/" if spelling == "slash" else "/r")
    q = RecQ()
    cls = InotifyFullEmitter if full else InotifyEmitter
    em = cls(q, ObservedWatch(rootarg, recursive=recursive))
    em.on_thread_start()
    fs.stop_flag = em._inotify._stopped_event
    if fault:
        # the n-th inotify_add_watch made from now on fails (ENOENT: the entry vanished again, ENOTDIR: it was replaced
        # by a file, EACCES: it became unreadable) - a transient failure the pipeline must survive
        fs.fault_n = api.choice("fault.n", (1, 2, 3))
        fs.fault_errno = api.choice("fault.errno", (errno.ENOENT, errno.ENOTDIR, errno.EACCES))
        fs.armed = True
    initial = []
    for p in list(fs.kind.keys()):
        if inside(p):
            initial.append(p)
    ops = []
    for i in range(nops):
        if first is not None and isinstance(first[0], tuple) and i < len(first):
            op, p, d = first[i]          # a directed history with several fixed operations
        elif i == 0 and first is not None and not isinstance(first[0], tuple):
            op, p, d = first
        else:
            op = api.choice("op" + str(i), OPS)
            p = api.choice("src" + str(i), SRC)
            d = api.choice("dst" + str(i), DST)
        api.assume(valid(fs, op, p, d))
        if fault and first is None:
            # only operations that bring a directory into the tree make the library add watches (the others behave as
            # in the sessions without a fault)
            api.assume((op == "mkdir") | (op == "rename"))
        if (not settled) and i > 0 and tuple(props) != ("C07",):
            # (C07 quantifies over all timings: no pacing condition for its histories)
            api.assume(paced(ops[i - 1], op, p, d, prev_kind))
        before_kind = dict(fs.kind)
        prev_kind = before_kind[p] if p in before_kind else "f"
        mark = len(q.items)
        apply(fs, op, p, d)
        ops.append((op, p, d))
        if settled or i == nops - 1:
            drain(fs, em)
        if "C03" in props and settled:
            new = []
            k = 0
            for e in q.items:
                if k >= mark:
                    new.append(e)
                k += 1
            exp = expected_single(fs, before_kind, op, p, d, recursive, as_str, full)
            api.check(same_multiset(new, exp), "C03 each single operation produces exactly its contract")
    api.reach("history applied and drained")
    ino = em._inotify._inotify if em._inotify is not None else None
    # ---------------------------------------------------------------- C01: replay reproduces the tree
    if "C01" in props:
        final = set()
        for p in list(fs.kind.keys()):
            if inside(p) and (recursive or FM.parent_of(p) == ROOT):
                final.add(p)
        start = [p for p in initial if (recursive or FM.parent_of(p) == ROOT)]
        got = replay_tree(start, q.items, as_str)
        if not recursive:
            got = set(x for x in got if FM.parent_of(x) == ROOT)
        api.check(got == final, "C01 replaying created/deleted/moved events on the initial tree yields the final tree")
    # ---------------------------------------------------------------- C02: every directory covered under its current name
    if "C02" in props and ino is not None:
        for p in list(fs.kind.keys()):
            if fs.isdir(p) and (p == ROOT or (recursive and inside(p))):
                api.check(p in ino._wd_for_path, "C02 every directory that exists under the root is watched under its current path")
                api.reach("C02 directory probed")
        for p in list(ino._wd_for_path.keys()):
            if inside(p) or p == ROOT:
                api.check((not fs.exists(p)) | fs.isdir(p), "C02 watched paths name directories")
    # ---------------------------------------------------------------- C07: nothing died; a probe is still reported
    if "C07" in props or "C02" in props:
        if em._inotify is not None:
            # one probe in a symbolically chosen existing directory (every directory is probed by some choice)
            dpath = api.choice("probe_dir", (ROOT, b"/r/a", b"/r/ab", b"/r/c", b"/r/e", b"/r/a/c", b"/r/e/c"))
            api.assume(fs.isdir(dpath) & (not fs.exists(dpath + b"/probe")))
            if fault:
                # a directory whose watch could not be added is legitimately unwatched: probe the ones that were
                # there (and watched) from the start
                api.assume((dpath == ROOT) | (dpath == b"/r/a") | (dpath == b"/r/ab") | (dpath == b"/r/e"))
                fs.armed = False
            if (dpath == ROOT) | recursive:
                fs.create(dpath + b"/probe")
                drain(fs, em)
                want = FileCreatedEvent(tr(dpath + b"/probe", as_str))
                api.check(want in q.items, "C02/C07 a change made in an existing directory after the history is reported under its real path")
                api.reach("probe reported")
            elif "C02" in props:
                fs.create(dpath + b"/probe")
                drain(fs, em)
                api.check(not (FileCreatedEvent(tr(dpath + b"/probe", as_str)) in q.items), "C02 a non-recursive watch never reports changes below the root's direct children")
    # ---------------------------------------------------------------- C19: path type and exact name
    if "C19" in props:
        for e in q.items:
            for x in (e.src_path, e.dest_path):
                if x != "" and x != b"":
                    api.check(isinstance(x, str) == as_str, "C19 event paths have the type of the watched path")
                    raw = os.fsencode(x) if as_str else x
                    given = os.fsencode(rootarg) if as_str else rootarg
                    api.check((FM.norm(raw) == ROOT) | raw.startswith(ROOT + b"/"), "C19 event paths name the real entry")
                    api.check((raw == given) | raw.startswith(given if given.endswith(b"/") else given + b"/") | (FM.norm(raw) == FM.norm(given)),
                              "C19 event paths are the watched path, as given, joined with the entry's relative name")


def setup(vm):
    FM.install(vm)
    vm.native_classes.add(ObservedWatch)
    from watchdog.observers.inotify_c import InotifyEvent
    vm.native_classes.add(InotifyEvent)


def native_ctx():
    return FM.native_ctx()
