"""C08 - a rename arrives as one paired move; no native event is lost or duplicated.

Engine B: the real InotifyBuffer.__init__/run/_group_events/read_event and DelayedQueue.* with a reader
thread (InotifyBuffer.run over a scripted Inotify handing out the kernel sequence in batches) and a
consumer thread (read_event) under a symbolic scheduler and clock.  Symbolic: the native sequence
(each position from an alphabet of rename halves and other events), the batch cuts, the gap before
every batch, the schedule.  Inotify.read_events itself is C01/C07/C12's subject and is scripted here.
"""
from __future__ import annotations

import threading
import time

import watchdog.observers.inotify_buffer as IB
from watchdog.observers.inotify_buffer import InotifyBuffer
from watchdog.observers.inotify_c import InotifyConstants as IC, InotifyEvent

from .. import api

ROOT = b"/r"
ALPHABET = ("F1", "T1", "F2", "T2", "O1", "O2")
SMALL = ("F1", "T1", "O1")


def mk(kind, pos):
    """the native event of kind `kind` at kernel position `pos` (distinct objects per position)"""
    name = ("n%d" % pos).encode()
    if kind == "F1":
        return InotifyEvent(1, IC.IN_MOVED_FROM, 11, name, ROOT + b"/" + name)
    if kind == "T1":
        return InotifyEvent(1, IC.IN_MOVED_TO, 11, name, ROOT + b"/" + name)
    if kind == "F2":
        return InotifyEvent(1, IC.IN_MOVED_FROM, 22, name, ROOT + b"/" + name)
    if kind == "T2":
        return InotifyEvent(1, IC.IN_MOVED_TO, 22, name, ROOT + b"/" + name)
    if kind == "O1":
        return InotifyEvent(1, IC.IN_MODIFY, 0, name, ROOT + b"/" + name)
    return InotifyEvent(1, IC.IN_CREATE, 0, name, ROOT + b"/" + name)


class Script:
    """what the kernel delivers: events, batch cuts, the time each batch becomes readable"""

    def __init__(self, n, alphabet, fixed_kinds=None, fixed_cuts=None):
        self.n = n
        self.events = []
        self.kinds = []
        for i in range(n):
            k = fixed_kinds[i] if fixed_kinds is not None else api.choice("ev" + str(i), alphabet)
            self.kinds.append(k)
            self.events.append(mk(k, i))
        self.cut = [True]
        for i in range(1, n):
            self.cut.append(fixed_cuts[i - 1] if fixed_cuts is not None else api.sym_bool("cut" + str(i)))
        self.cut.append(True)
        self.next = 0
        self.batch_time = {}
        # a cookie is used by at most one FROM and one TO, FROM first (kernel contract)
        for c in ("1", "2"):
            nf = 0
            nt = 0
            for i in range(n):
                if self.kinds[i] == "F" + c:
                    nf += 1
                    api.assume(nt == 0)
                if self.kinds[i] == "T" + c:
                    nt += 1
            api.assume((nf <= 1) & (nt <= 1))


class FakeInotify:
    def __init__(self, script):
        self.script = script
        self.path = ROOT
        self.closed = False

    def read_events(self):
        sc = self.script
        if sc.next >= sc.n:
            api.block_forever()
        gap = api.sym_real("gap" + str(sc.next), 0, 2)
        time.sleep(gap)
        out = [sc.events[sc.next]]
        sc.batch_time[sc.next] = time.time()
        sc.next = sc.next + 1
        while sc.next < sc.n and not sc.cut[sc.next]:
            out.append(sc.events[sc.next])
            sc.batch_time[sc.next] = time.time()
            sc.next = sc.next + 1
        return out

    def close(self):
        self.closed = True


CURRENT = {}


def use_script(script):
    CURRENT["script"] = script


def consumer(buf, n, rec):
    count = 0
    while count < n:
        e = buf.read_event()
        t = time.time()
        if e is None:
            break
        rec.out.append(e)
        rec.when.append(t)
        if isinstance(e, tuple):
            count += 2
        else:
            count += 1


class Rec:
    def __init__(self):
        self.out = []
        self.when = []


def h_fixed(kinds, cuts):
    """the native sequence and its batch cuts are fixed per session; schedule, clock and gaps stay symbolic"""
    h_buffer(len(kinds), True, kinds, cuts)


def h_buffer(n, small, fixed_kinds=None, fixed_cuts=None):
    script = Script(n, SMALL if small else ALPHABET, fixed_kinds, fixed_cuts)
    use_script(script)
    rec = Rec()
    buf = InotifyBuffer(ROOT, recursive=True)      # starts the reader thread (run)
    tc = threading.Thread(target=consumer, args=(buf, n, rec), name="consumer")
    tc.start()
    api.join_all([tc])
    api.reach("everything consumed")
    delay = InotifyBuffer.delay
    # ---- every native event is handed out exactly once, alone or as one half of one pair
    i = 0
    for ev in script.events:
        alone = rec.out.count(ev)
        as_from = 0
        as_to = 0
        for x in rec.out:
            if isinstance(x, tuple):
                if x[0] is ev:
                    as_from += 1
                if x[1] is ev:
                    as_to += 1
        api.check(alone + as_from + as_to == 1, "every native event is handed to the emitter exactly once")
        k = script.kinds[i]
        if (k == "F1") | (k == "F2"):
            api.check(as_to == 0, "a MOVED_FROM is only ever the first half of a pair")
            # partner in the same batch => must be paired
            for j in range(i + 1, n):
                partner = "T" + k[1]
                if script.kinds[j] == partner:
                    same_batch = True
                    for m in range(i + 1, j + 1):
                        same_batch = same_batch & (not script.cut[m])
                    if same_batch:
                        api.check(as_from == 1, "halves of a rename that arrive in one batch are delivered as one pair")
                        api.reach("pair within a batch")
                    if as_from == 1:
                        api.check((rec.out.count((ev, script.events[j])) == 1), "a pair consists of the two halves with the same cookie")
                        api.reach("paired")
            if alone == 1:
                # handed out alone: never before the pairing delay elapsed since its batch was read
                idx = rec.out.index(ev)
                api.check(rec.when[idx] >= script.batch_time[i] + delay, "an unmatched MOVED_FROM is held back for the pairing delay")
                api.reach("unmatched from delivered alone")
        else:
            api.check(as_from == 0, "only a MOVED_FROM can be the first half of a pair")
        i += 1
    # ---- kernel order: single events and pairs (at either half's position) appear in kernel order
    for a in range(n):
        for b in range(a + 1, n):
            ea = script.events[a]
            eb = script.events[b]
            if (ea in rec.out) & (eb in rec.out):
                ka = script.kinds[a]
                if not ((ka == "F1") | (ka == "F2")):
                    api.check(rec.out.index(ea) < rec.out.index(eb), "events that are handed out alone keep their kernel order (a held-back MOVED_FROM may be overtaken)")


class SeqInotify:
    """sequential stand-in for Inotify: hands out the scripted batches; after the last one the reader is told to stop"""

    def __init__(self, script):
        self.script = script
        self.path = ROOT
        self.owner = None
        self.closed = False
        self.calls = 0

    def read_events(self):
        sc = self.script
        c = self.calls
        self.calls = c + 1
        out = []
        for i in range(sc.n):
            if sc.batch_of[i] == c:
                out.append(sc.events[i])
        if c >= sc.batch_of[sc.n - 1]:
            self.owner._stopped_event.set()
        return out

    def close(self):
        self.closed = True


def flag_of(out, flags, ev):
    r = False
    for (x, f) in flags:
        if x is ev:
            r = f
    return r


def h_seq(n, small):
    """the reader alone (no consumer has taken anything yet): the real run()/_group_events/DelayedQueue.put/remove over
    every native sequence and every way of cutting it into read batches; the delay queue is inspected afterwards"""
    script = Script(n, SMALL if small else ALPHABET)
    script.batch_of = []
    b = 0
    for i in range(n):
        if i > 0 and script.cut[i]:
            b = b + 1
        script.batch_of.append(b)
    use_script(script)
    buf = InotifyBuffer(ROOT, recursive=True)
    buf._inotify.owner = buf
    buf.run()
    api.reach("reader processed every batch")
    out = []
    flags = []
    for x in buf._queue._queue:
        out.append(x[0])
        flags.append((x[0], x[2]))
    i = 0
    for ev in script.events:
        alone = out.count(ev)
        as_from = 0
        as_to = 0
        for x in out:
            if isinstance(x, tuple):
                if x[0] is ev:
                    as_from += 1
                if x[1] is ev:
                    as_to += 1
        api.check(alone + as_from + as_to == 1, "every native event is handed on exactly once, alone or as one half of a pair")
        k = script.kinds[i]
        if (k == "F1") | (k == "F2"):
            api.check(as_to == 0, "a MOVED_FROM is only ever the first half of a pair")
            partner = "T" + k[1]
            has_partner = False
            for j in range(i + 1, n):
                if script.kinds[j] == partner:
                    has_partner = True
                    # nothing was consumed meanwhile: the first half is still waiting, so the halves must be paired
                    api.check(as_from == 1, "the two halves of a rename are delivered as one pair when the second arrives "
                                            "while the first is still waiting")
                    api.check(out.count((ev, script.events[j])) == 1, "a pair consists of the two halves with the same cookie")
                    api.reach("paired")
            if not has_partner:
                api.check(alone == 1, "an unmatched MOVED_FROM is delivered alone")
                api.check(flag_of(out, flags, ev), "an unmatched MOVED_FROM is held back for the pairing delay")
                api.reach("unmatched MOVED_FROM")
        else:
            api.check(as_from == 0, "only a MOVED_FROM can be the first half of a pair")
            if alone == 1:
                api.check(not flag_of(out, flags, ev), "only an unmatched MOVED_FROM is delayed")
        i += 1
    for (x, f) in flags:
        if isinstance(x, tuple):
            api.check(not f, "a pair is not delayed")
    for a in range(n):
        for b in range(a + 1, n):
            ea = script.events[a]
            eb = script.events[b]
            if (ea in out) & (eb in out):
                api.check(out.index(ea) < out.index(eb), "events handed on alone keep their kernel order")


def native_ctx():
    """native replay of the sequential sessions: the same stand-in Inotify, the reader thread is not started"""
    import contextlib
    from unittest import mock

    @contextlib.contextmanager
    def ctx():
        with mock.patch("watchdog.observers.inotify_buffer.Inotify", lambda *a, **k: SeqInotify(CURRENT["script"])), \
                mock.patch("threading.Thread.start", lambda self: None):
            yield
    return ctx()


def setup_seq(vm):
    vm.c08_seq = True
    setup(vm)


def setup(vm):
    import vf.props.c08 as me

    def use_script_model(vm, s, args, kw):
        vm.c08_script = args[0]
        return None

    def inotify_model(vm, s, args, kw):
        from ..vm import _Pending
        cls = me.SeqInotify if getattr(vm, "c08_seq", False) else me.FakeInotify
        return _Pending(vm.construct(s, cls, [vm.c08_script], {}, ("push",)))
    vm.register_model(me.use_script, use_script_model)
    vm.register_model(IB.Inotify, inotify_model)
    vm.native_classes.add(InotifyEvent)


def check(rep):
    from ..driver import run_sessions
    mod = __name__
    quick = rep.tier == "quick"
    n = 4 if quick else 5
    specs = [dict(name=f"reader alone: every sequence of {n} native events over the full alphabet, every batch cutting", module=mod,
                  harness="h_seq", args=(n, False), setup="setup_seq", native_ctx="native_ctx", loop_bound=600,
                  int_union_limit=100000)]
    conc = [dict(name="threads: reader | consumer, one ordinary event", module=mod, harness="h_fixed", args=(("O1",), ()),
                 steps=20)]
    for sp in conc:
        sp.update(setup="setup")
    specs = specs + conc
    for sp in specs:
        sp.update(encode=("watchdog",), jobs=6, query_timeout_s=900 if quick else 3000)
        sp.setdefault("loop_bound", 40)
    res = run_sessions(specs, workers=len(specs))
    rep.add_results(res)
    rep.bounds = {"native_events_sequential": n, "alphabet": list(ALPHABET), "batch_cuts": "symbolic (every cutting)",
                  "thread_sessions": [sp["name"] for sp in conc], "steps_K": [sp["steps"] for sp in conc],
                  "gap_before_each_batch": "symbolic real in [0,2] (pairing delay 0.5), thread sessions only"}
    rep.outside = ["longer native sequences", "interleavings of reader and consumer beyond the listed thread sessions: the "
                   "cross-batch pairing race (partner found in the delay queue while the consumer sleeps on it) and the expiry "
                   "boundary are NOT decided here - the encoding of that program did not finish solving; the delay-queue "
                   "guarantees they rest on are decided by the C17 check", "a closer thread racing the reader (C12)",
                   "Inotify.read_events itself (scripted)", "IN_IGNORED / DELETE_SELF of the root inside the sequence (C07)"]
    rep.stubs = ["Inotify replaced by a scripted reader handing out the symbolic sequence in symbolic batches",
                 "sequential session: the reader's real run() is executed to completion before anything is consumed and the "
                 "delay queue's contents are inspected", "threading/time models (prims.py, conc.py)"]
    rep.assumptions = ["a cookie is carried by at most one MOVED_FROM and one MOVED_TO, the FROM first",
                       "scheduling points (thread sessions): lock acquisitions, wait/sleep resumptions, Event flag accesses, joins"]
