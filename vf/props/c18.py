"""C18 - tricks: debounced batches are complete and ordered; stop ends everything.

Engine B, quick tier: the real EventDebouncer.__init__/handle_event/stop/run (+ BaseThread) with its own
thread, a producer thread and a stopper under a symbolic scheduler and clock.
  session "delivery": the main thread stops the debouncer only after every event was delivered - a lost
      wake-up shows up as a deadlock;
  session "stop race": stop() races the producer and the debouncer - nothing twice, nothing after stop()
      returned, order kept, the thread exits.
AutoRestartTrick / ShellCommandTrick over a simulated process table are NOT covered (see DESIGN.md).
"""
from __future__ import annotations

import threading
import time

from watchdog.events import FileModifiedEvent
from watchdog.utils.event_debouncer import EventDebouncer

from .. import api


class Rec:
    def __init__(self):
        self.batches = []       # delivered events, flattened, in delivery order
        self.deliv_time = {}    # event index -> delivery time
        self.batch_time = []    # delivery time per batch
        self.batch_step = []    # scheduler step per batch
        self.arrival = {}       # event index -> time handed over
        self.nbatches = 0
        self.count = 0
        self.stop_returned_step = None
        self.mark = 0
        self.delivered = threading.Event()


def make_callback(rec, events):
    def cb(batch):
        rec.mark = 1            # racy field: a scheduling point at the start of the callback (it can start arbitrarily late)
        t = time.time()
        rec.batch_time.append(t)
        rec.batch_step.append(api.step())
        for e in batch:
            i = 0
            for x in events:
                if e is x:
                    rec.batches.append(i)
                    rec.deliv_time[i] = t
                i += 1
        rec.nbatches = rec.nbatches + 1
        rec.count = rec.count + len(batch)
        rec.delivered.set()
    return cb


def producer(d, events, rec):
    i = 0
    for e in events:
        rec.arrival[i] = time.time()
        d.handle_event(e)
        i += 1


def stopper(d, rec):
    d.stop()
    rec.stop_returned_step = api.step()


def common_checks(rec, nev, interval):
    for i in range(nev):
        api.check(rec.batches.count(i) <= 1, "no event is passed to the callback twice")
    for i in range(nev):
        for j in range(i + 1, nev):
            # every occurrence of j is preceded by i, if i is delivered at all (branch-free scan)
            seen_i = False
            ok = True
            for x in rec.batches:
                ok = ok & ((x != j) | seen_i | (not (i in rec.batches)))
                seen_i = seen_i | (x == i)
            api.check(ok, "events are delivered in arrival order")
    if interval:
        for i in range(nev):
            if i in rec.batches:
                api.check(rec.deliv_time[i] >= rec.arrival[i] + interval,
                          "a batch is delivered only after the debounce interval has passed since its events arrived")


def h_delivery(nev, interval):
    rec = Rec()
    events = [FileModifiedEvent("/f" + str(i)) for i in range(nev)]
    d = EventDebouncer(interval, make_callback(rec, events))
    d.start()
    tp = threading.Thread(target=producer, args=(d, events, rec), name="producer")
    tp.start()
    # stop only once everything was delivered: a lost wake-up leaves this thread and the debouncer blocked
    while rec.count < nev:
        rec.delivered.wait()
        rec.delivered.clear()
    d.stop()
    api.join_all([tp, d])
    api.reach("all delivered, debouncer stopped")
    api.check(len(rec.batches) == nev, "every event handed over is passed to the callback")
    common_checks(rec, nev, interval)


def h_stop_race(nev, interval):
    rec = Rec()
    events = [FileModifiedEvent("/f" + str(i)) for i in range(nev)]
    d = EventDebouncer(interval, make_callback(rec, events))
    d.start()
    tp = threading.Thread(target=producer, args=(d, events, rec), name="producer")
    ts = threading.Thread(target=stopper, args=(d, rec), name="stopper")
    tp.start()
    ts.start()
    api.join_all([tp, ts, d])
    api.reach("stopped")
    common_checks(rec, nev, interval)
    for b in range(2):
        if b < rec.nbatches:
            api.check(rec.batch_step[b] < rec.stop_returned_step, "nothing is delivered after stop() has returned")
    if rec.nbatches > 0:
        api.reach("a batch was delivered before the stop")


def check(rep):
    from ..driver import run_sessions
    mod = __name__
    quick = rep.tier == "quick"
    specs = [
        dict(name="delivery: 1 event, interval 0.5", module=mod, harness="h_delivery", args=(1, 0.5), steps=22),
        dict(name="stop race: 2 events, interval 0.5", module=mod, harness="h_stop_race", args=(2, 0.5), steps=33),
        dict(name="delivery: 2 events, no debounce interval", module=mod, harness="h_delivery", args=(2, 0), steps=29),
    ]
    if not quick:
        specs.append(dict(name="delivery: 2 events, interval 0.5", module=mod, harness="h_delivery", args=(2, 0.5), steps=33))
    for sp in specs:
        sp.update(jobs=5, query_timeout_s=900 if quick else 3000, loop_bound=400, racy=[("Rec", "mark")])
    res = run_sessions(specs, workers=len(specs))
    rep.add_results(res)
    rep.bounds = {"programs": [sp["name"] for sp in specs], "steps_K": [sp["steps"] for sp in specs]}
    rep.outside = ["AutoRestartTrick and ShellCommandTrick over a simulated process table (not built: see DESIGN.md)",
                   "more events / several producers", "callbacks that raise"]
    rep.stubs = ["threading.Condition/Event/Thread and time models (prims.py, conc.py)"]
    rep.assumptions = ["scheduling points: condition-lock acquisitions, wait resumptions (timed and untimed), accesses to "
                       "Event flags, joins", "Condition.wait has no spurious wake-ups"]
