"""C01 - see vf/props/fsfam.py (shared harness of the history properties) and DESIGN.md section 9."""
from . import fsfam_check


def check(rep):
    fsfam_check.check(rep, "C01")
