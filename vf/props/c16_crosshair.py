"""Runs the CrossHair harnesses of C16 and maps CrossHair's verdicts to the exit-code protocol."""
from __future__ import annotations

import importlib.util
import os
import re
import subprocess
import sys
import time

HARNESS = "/verif/crosshair_harness/c16_ch.py"
EXPECT = {"queue_matches_model": "confirm", "queue_reachable": "refute"}


def _line_of(fn):
    for i, l in enumerate(open(HARNESS), 1):
        if l.startswith(f"def {fn}("):
            return i + 1
    raise KeyError(fn)


def run_one(fn, timeout):
    t0 = time.time()
    cmd = [sys.executable, "-m", "crosshair", "check", "--report_all", "--per_condition_timeout", str(timeout),
           f"{HARNESS}:{_line_of(fn)}"]
    env = dict(os.environ, PYTHONPATH=os.environ.get("VF_SRC", "/repo/src") + ":/verif", PYTHONHASHSEED="0", C16_NOPS=str(BOUNDS[0]))
    try:
        p = subprocess.run(cmd, capture_output=True, text=True, timeout=timeout * 3 + 120, env=env)
        out = p.stdout + p.stderr
    except subprocess.TimeoutExpired:
        out = "TIMEOUT"
    return {"function": fn, "output": out.strip()[-1500:], "seconds": round(time.time() - t0, 1)}


def classify(out):
    if "Confirmed over all paths" in out:
        return "confirmed"
    m = re.search(r"error: false when calling (\w+)\((.*)\)", out)
    if m:
        return "counterexample"
    if "error:" in out and "when calling" in out:
        return "counterexample"
    return "inconclusive"


def counterexample_args(out):
    m = re.search(r"when calling (\w+)\((.*)\)\s*(\(which returns|$)", out, re.M)
    if not m:
        m = re.search(r"when calling (\w+)\((.*)\)", out)
    if not m:
        return None, None
    try:
        args = eval("dict(" + m.group(2) + ")") if "=" in m.group(2) else None
        if args is None:
            pos = eval("(" + m.group(2) + ",)")
            return m.group(1), pos
        return m.group(1), args
    except Exception:
        return m.group(1), None


def replay(fn, args):
    spec = importlib.util.spec_from_file_location("c16_ch", HARNESS)
    mod = importlib.util.module_from_spec(spec)
    spec.loader.exec_module(mod)
    f = getattr(mod, fn)
    try:
        r = f(**args) if isinstance(args, dict) else f(*args)
    except Exception as e:
        return f"raised {type(e).__name__}: {e}"
    return r


BOUNDS = [2, 1]


def run(quick):
    import concurrent.futures as cf
    timeout = 90 if quick else 900
    BOUNDS[:] = [4, 0] if quick else [6, 0]
    with cf.ThreadPoolExecutor(max_workers=3) as ex:
        results = list(ex.map(lambda fn: run_one(fn, timeout), EXPECT))
    out = {"results": results, "bounds": {"put/get sequence length": BOUNDS[0], "item values": [0, 1, 2],
                                          
                                          "per_condition_timeout_s": timeout}}
    return out


def fold(rep, ch):
    """fold CrossHair results into the report"""
    summary = []
    for r in ch["results"]:
        fn = r["function"]
        verdict = classify(r["output"])
        want = EXPECT[fn]
        rec = {"function": fn, "crosshair_verdict": verdict, "seconds": r["seconds"]}
        if want == "confirm":
            if verdict == "confirmed":
                rec["status"] = "pass"
            elif verdict == "counterexample":
                f2, args = counterexample_args(r["output"])
                got = replay(fn, args) if args is not None else "unparsed"
                rec["counterexample"] = repr(args)
                rec["native_replay_returns"] = repr(got)
                if got is False:
                    rec["status"] = "violation"
                    import json
                    os.makedirs("/verif/replays", exist_ok=True)
                    path = f"/verif/replays/C16-crosshair-{fn}.json"
                    json.dump({"property": "C16", "function": fn, "args": repr(args),
                               "harness": HARNESS}, open(path, "w"), indent=1)
                    rep.violations.append((fn, path, f"CrossHair counterexample {fn}{args!r} reproduced natively (returns False)"))
                else:
                    rec["status"] = "inconclusive"
                    rep.inconclusive = rep.inconclusive or f"CrossHair counterexample for {fn} did not reproduce: {got!r}"
            else:
                rec["status"] = "inconclusive"
                rep.inconclusive = rep.inconclusive or f"CrossHair could not decide {fn}: {r['output'][-200:]}"
        else:  # reachability twin must be refuted
            if verdict == "counterexample":
                rec["status"] = "pass (preconditions reachable)"
            else:
                rec["status"] = "inconclusive"
                rep.inconclusive = rep.inconclusive or f"reachability twin {fn} not refuted ({verdict})"
        summary.append(rec)
    rep.extra["crosshair"] = summary
    rep.traces_validated += sum(1 for r in summary if "native_replay_returns" in r)
