"""C17 - delay queue: FIFO, never early, loses or duplicates nothing; close() unblocks.

Engine B: the real DelayedQueue.__init__/put/get/remove/close run by a producer, a consumer and a
remover (or closer) thread under a symbolic scheduler and a symbolic clock.  Symbolic: the schedule,
the clock readings, each element's `delay` flag, the element the remover's predicate matches.
"""
from __future__ import annotations

import threading
import time

from watchdog.utils.delayed_queue import DelayedQueue

from .. import api

DELAY = 0.5


class Item:
    def __init__(self, name):
        self.name = name


class Rec:
    """ghost record of what each call returned and when"""

    def __init__(self):
        self.got = []        # (element, time) returned by get(), in order
        self.removed = None  # element returned by remove()
        self.put_time = {}


def producer(q, items, delays, rec):
    for it, d in zip(items, delays):
        rec.put_time[it.name] = time.time()
        q.put(it, delay=d)


def consumer(q, n, rec, items, delays):
    for _ in range(n):
        r = q.get()
        t = time.time()
        rec.got.append(r)
        if r is not None:
            for it, d in zip(items, delays):
                if r is it:
                    if d:
                        api.check(t >= rec.put_time[it.name] + DELAY, "a delayed element is never handed out before its delay elapsed")
            api.check(r is not rec.removed, "an element handed out by remove() is not returned by get() as well")


def remover(q, target, rec):
    r = q.remove(lambda e: e is target)
    rec.removed = r
    if r is not None:
        api.check(r is target, "remove() returns an element satisfying the predicate")
        api.check(not (r in rec.got), "an element returned by get() is not handed out again by remove()")


def closer(q):
    q.close()


def h_dq(nitems, with_remover, with_closer):
    q = DelayedQueue(DELAY)
    items = [Item("e0"), Item("e1"), Item("e2")][:nitems]
    delays = [api.sym_bool("delay" + str(i)) for i in range(nitems)]
    rec = Rec()
    ngets = nitems - 1 if with_remover else nitems   # the remover may take one element away from the consumer
    threads = [threading.Thread(target=producer, args=(q, items, delays, rec), name="producer"),
               threading.Thread(target=consumer, args=(q, ngets, rec, items, delays), name="consumer")]
    if with_remover:
        target = api.choice("remove_target", items)
        threads.append(threading.Thread(target=remover, args=(q, target, rec), name="remover"))
    if with_closer:
        threads.append(threading.Thread(target=closer, args=(q,), name="closer"))
    for t in threads:
        t.start()
    api.join_all(threads)
    api.reach("all threads joined")
    # ---- end-state checks (all threads finished)
    # FIFO among get() results; every element handed out at most once; nothing lost
    pos = []
    for it in items:
        api.check(rec.got.count(it) <= 1, "no element is returned twice by get()")
    if nitems >= 2:
        if (items[0] in rec.got) & (items[1] in rec.got):
            api.check(rec.got.index(items[0]) < rec.got.index(items[1]), "elements leave in the order they were put in")
    if not with_closer:
        api.check(not (None in rec.got), "get() returns the end marker only after close()")
        if not with_remover:
            for it in items:
                api.check(rec.got.count(it) == 1, "every element put in is returned by get() exactly once")
        nhanded = 0
        for it in items:
            if (it in rec.got) | (rec.removed is it):
                nhanded += 1
        if with_remover and nhanded < nitems:
            # (without a remover the consumer takes everything) exactly one element was neither returned nor removed: it must still be deliverable
            api.check(nhanded == nitems - 1, "at most one element is still queued when the consumer has done its gets")
            last = q.get()
            api.check(last is not None, "a queued element is deliverable")
            api.check(not (last in rec.got), "the remaining element was not handed out before")
            api.check(last is not rec.removed, "the remaining element was not removed")
            api.reach("left-over element delivered")
    else:
        # after close() every get() returns: either an element or the end marker, FIFO among the elements
        api.check(len(rec.got) == ngets, "every get() returned (close() unblocks a waiting or later get())")


def check(rep):
    from ..driver import run_sessions
    mod = __name__
    quick = rep.tier == "quick"
    specs = [
        dict(name="2 elements: producer | consumer | remover", module=mod, harness="h_dq", args=(2, True, False),
             steps=17),
        dict(name="2 elements: producer | consumer | closer", module=mod, harness="h_dq", args=(2, False, True),
             steps=20, racy=[("DelayedQueue", "_closed")]),
    ]
    if not quick:
        specs.append(dict(name="3 elements: producer | consumer", module=mod, harness="h_dq", args=(3, False, False),
                          steps=28))
        specs.append(dict(name="2 elements: producer | consumer | remover | closer", module=mod, harness="h_dq",
                          args=(2, True, True), steps=22, racy=[("DelayedQueue", "_closed")]))
    for sp in specs:
        sp.update(jobs=7 if quick else 4, cross_check=False, query_timeout_s=900 if quick else 3000, loop_bound=60)
    res = run_sessions(specs, workers=len(specs))
    rep.add_results(res)
    rep.bounds = {"threads": "producer (2 or 3 puts), consumer (gets), remover and/or closer, main",
                  "steps_K": [sp["steps"] for sp in specs], "delay_flags": "symbolic per element",
                  "remover_target": "symbolic", "clock": "free non-decreasing reals per step"}
    rep.outside = ["more elements/threads, schedules longer than K steps (an unwinding query shows K suffices for "
                   "the stated programs)", "spurious wake-ups of Condition.wait (CPython has none)",
                   "interleavings finer than the mover reduction of DESIGN.md 4.3 (accesses to fields that are always "
                   "lock-protected are not scheduling points; _closed is, when a closer thread exists)"]
    rep.stubs = ["threading.Lock/Condition/Thread and time.time/sleep models (prims.py, conc.py)"]
    rep.assumptions = ["lock acquisition, wait/sleep resumption, join, and accesses to DelayedQueue._closed (when written "
                       "concurrently) are the scheduling points", "the consumer performs one get() per element (one fewer when a "
                       "remover runs; a left-over element is then fetched by the main thread)"]
