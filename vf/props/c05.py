"""C05 - after unschedule/remove/stop returns, the removed handler is never called again.

Part A (Engine A, sequential, re-entrant): the real BaseObserver with its real event queue; up to three handlers on
two watches (registration symbolic); every handler performs, on its first callback, one symbolic API call on its own
observer (remove itself / remove another handler / unschedule this watch / unschedule the other watch / unschedule_all /
stop); a symbolic sequence of queued events is dispatched by the real dispatch_events, called the way
EventDispatcher.run calls it.  Obligation: no handler is invoked for a watch after a call that removed it returned;
the emitter of an unscheduled watch has been told to stop; routing and at-most-once delivery (shared with C04).

Part B (Engine B, threads): a dispatcher thread inside the real dispatch_events and an application thread issuing
one removal call (one session per call) under the symbolic scheduler; every access to BaseObserver._handlers and the start of
every callback are scheduling points.  Obligation: no callback of a removed handler starts after the call returned.
"""
from __future__ import annotations

import threading

from watchdog.events import FileCreatedEvent, FileSystemEventHandler
from watchdog.observers.api import BaseObserver, EventEmitter, ObservedWatch

from .. import api

PATHS = ("/p", "/q")
ACTIONS = ("none", "remove_self", "remove_other", "unschedule", "unschedule_other", "unschedule_all", "stop")


class QuietEmitter(EventEmitter):
    """produces nothing by itself: events are queued by the harness through the emitter's own queue_event"""

    def queue_events(self, timeout):
        self.stopped_event.wait()


class World:
    def __init__(self, obs, nh, nw):
        self.obs = obs
        self.nh = nh
        self.nw = nw
        self.watches = []
        self.handlers = []
        self.widx = {}         # event path -> watch index
        self.eidx = {}         # event path -> event index
        self.calls = []        # (handler index, watch index, event index), in call order
        self.regd = {}         # (handler, watch) -> currently registered (ghost)
        self.sched = {}        # watch -> currently scheduled (ghost)
        self.removed = {}      # (handler, watch) -> number of calls that had been made when the removing call returned
        self.mark = 0          # racy field: a scheduling point at the start of every callback (Engine B)

    def drop(self, i, j):
        if self.regd[(i, j)]:
            self.regd[(i, j)] = False
            self.removed[(i, j)] = len(self.calls)

    def drop_watch(self, j):
        for i in range(self.nh):
            self.drop(i, j)
        self.sched[j] = False


class Actor(FileSystemEventHandler):
    def __init__(self, idx, world, action):
        self.idx = idx
        self.world = world
        self.action = action
        self.fired = False

    def dispatch(self, event):
        w = self.world
        j = w.widx[event.src_path]
        w.calls.append((self.idx, j, w.eidx[event.src_path]))
        if self.fired:
            return
        self.fired = True
        a = self.action
        obs = w.obs
        if a == "remove_self":
            obs.remove_handler_for_watch(self, w.watches[j])
            w.drop(self.idx, j)
        elif a == "remove_other":
            t = (self.idx + 1) % w.nh
            api.assume(w.regd[(t, j)])
            obs.remove_handler_for_watch(w.handlers[t], w.watches[j])
            w.drop(t, j)
        elif a == "unschedule":
            obs.unschedule(w.watches[j])
            w.drop_watch(j)
        elif a == "unschedule_other":
            o = (j + 1) % w.nw
            api.assume(w.sched[o])
            obs.unschedule(w.watches[o])
            w.drop_watch(o)
        elif a == "unschedule_all":
            obs.unschedule_all()
            for k in range(w.nw):
                w.drop_watch(k)
        elif a == "stop":
            obs.stop()
            for k in range(w.nw):
                w.drop_watch(k)


def build(nh, nw, actions):
    obs = BaseObserver(QuietEmitter)
    w = World(obs, nh, nw)
    for i in range(nh):
        w.handlers.append(Actor(i, w, actions[i]))
    for j in range(nw):
        # handler j always watches path j; the other registrations are symbolic
        w.watches.append(obs.schedule(w.handlers[j % nh], PATHS[j]))
        w.sched[j] = True
        for i in range(nh):
            if i == j % nh:
                w.regd[(i, j)] = True
            else:
                r = api.sym_bool("reg." + str(i) + "." + str(j))
                w.regd[(i, j)] = r
                if r:
                    obs.add_handler_for_watch(w.handlers[i], w.watches[j])
    return obs, w


def h_reentrant(nh, nw, nev):
    actions = [api.choice("action." + str(i), ACTIONS) for i in range(nh)]
    obs, w = build(nh, nw, actions)
    emitters = [obs._emitter_for_watch[x] for x in w.watches]
    initially = dict(w.regd)
    # the emitters queue a symbolic sequence of distinct events
    ev_watch = []
    for k in range(nev):
        j = api.choice("event." + str(k) + ".watch", tuple(range(nw)))
        path = PATHS[j] + "/e" + str(k)
        w.widx[path] = j
        w.eidx[path] = k
        ev_watch.append(j)
        emitters[j].queue_event(FileCreatedEvent(path))
    q = obs.event_queue
    # EventDispatcher.run: while should_keep_running(): dispatch_events(queue)
    for k in range(nev + 1):
        if obs.should_keep_running() and not q.empty():
            obs.dispatch_events(q)
    api.reach("all queued events dispatched")
    # ---- C05: nothing after the removing call returned
    c = 0
    for (i, j, e) in w.calls:
        late = ((i, j) in w.removed) and (w.removed[(i, j)] <= c)
        api.check(not late, "no handler is invoked for a watch after the call that removed it has returned")
        c += 1
    for j in range(nw):
        if not w.sched[j]:
            api.check(not emitters[j].should_keep_running(), "the emitter of an unscheduled watch has been told to stop")
            api.reach("some watch was unscheduled from inside a callback")
    # ---- routing / at most once / order (shared with C04)
    for (i, j, e) in w.calls:
        api.check(initially[(i, j)], "a handler only receives events of a watch it is registered for")
        api.check(ev_watch[e] == j, "an event is routed by its own watch")
    for i in range(nh):
        for e in range(nev):
            j = ev_watch[e]
            n = w.calls.count((i, j, e))
            api.check(n <= 1, "an event is passed to a handler at most once")
            untouched = True
            for i2 in range(nh):
                for j2 in range(nw):
                    untouched = untouched & (not ((i2, j2) in w.removed))
            if untouched:
                api.check((n == 1) == initially[(i, j)], "with no removal, every registered handler receives every event of "
                                                         "its watch exactly once")
        last = -1
        for (i2, j2, e2) in w.calls:
            if i2 == i:
                api.check(e2 > last, "a handler receives events in the order they were queued")
                last = e2


# ------------------------------------------------------------------------------------------------- Engine B
class Rec(FileSystemEventHandler):
    def __init__(self, idx, world):
        self.idx = idx
        self.world = world

    def dispatch(self, event):
        w = self.world
        w.mark = self.idx           # scheduling point: a callback can start arbitrarily late
        w.called_at[self.idx] = api.step()


REMOVALS = ("remove_handler_for_watch", "unschedule", "unschedule_all", "stop")


def dispatcher(obs, n):
    for _ in range(n):
        obs.dispatch_events(obs.event_queue)


def remover(obs, w, which):
    if which == "remove_handler_for_watch":
        obs.remove_handler_for_watch(w.handlers[0], w.watches[0])
    elif which == "unschedule":
        obs.unschedule(w.watches[0])
    elif which == "unschedule_all":
        obs.unschedule_all()
    else:
        obs.stop()
    w.removed_at = api.step()


def h_race(nh, which):
    obs = BaseObserver(QuietEmitter)
    w = World(obs, nh, 1)
    w.called_at = {}
    w.removed_at = None
    for i in range(nh):
        w.handlers.append(Rec(i, w))
    w.watches.append(obs.schedule(w.handlers[0], PATHS[0]))
    for i in range(1, nh):
        obs.add_handler_for_watch(w.handlers[i], w.watches[0])
    em = obs._emitter_for_watch[w.watches[0]]
    em.queue_event(FileCreatedEvent("/p/e0"))
    td = threading.Thread(target=dispatcher, args=(obs, 1), name="dispatcher")
    tr = threading.Thread(target=remover, args=(obs, w, which), name="application")
    td.start()
    tr.start()
    api.join_all([td, tr])
    api.reach("dispatcher and application thread finished")
    if 0 in w.called_at:
        api.reach("the handler was called")
        api.check(not (w.called_at[0] > w.removed_at), "no callback of a removed handler starts after the removing call "
                                                       "has returned")
    if which != "remove_handler_for_watch":
        for i in range(1, nh):
            if i in w.called_at:
                api.check(not (w.called_at[i] > w.removed_at), "no callback of a removed handler starts after the removing "
                                                               "call has returned")


def setup(vm):
    vm.native_classes.add(ObservedWatch)


def check(rep):
    from ..driver import run_sessions
    mod = __name__
    quick = rep.tier == "quick"
    specs = [
        dict(name="re-entrant: 2 handlers, 2 watches, 2 events", module=mod, harness="h_reentrant", args=(2, 2, 2)),
        dict(name="re-entrant: 3 handlers, 1 watch, 2 events", module=mod, harness="h_reentrant", args=(3, 1, 2)),
    ]
    if not quick:
        specs.append(dict(name="re-entrant: 3 handlers, 2 watches, 3 events", module=mod, harness="h_reentrant",
                          args=(3, 2, 3)))
    for sp in specs:
        sp.update(setup="setup", encode=("watchdog", "queue"), jobs=4, query_timeout_s=900 if quick else 3000,
                  loop_bound=400)
    racy = [("BaseObserver", "_handlers"), ("World", "mark")]
    conc = []
    for which in REMOVALS:
        conc.append(dict(name=f"race: dispatcher | application thread calls {which}(), 1 handler", module=mod,
                         harness="h_race", args=(1, which), steps=24))
    if not quick:
        for which in REMOVALS:
            conc.append(dict(name=f"race: dispatcher | application thread calls {which}(), 2 handlers", module=mod,
                             harness="h_race", args=(2, which), steps=30))
    for sp in conc:
        sp.update(setup="setup", encode=("watchdog", "queue"), racy=racy, jobs=4,
                  query_timeout_s=900 if quick else 3000, loop_bound=400)
    specs = specs + conc
    res = run_sessions(specs, workers=min(len(specs), 8))
    rep.add_results(res)
    rep.bounds = {"sessions": [sp["name"] for sp in specs], "actions": list(ACTIONS), "removal_calls": list(REMOVALS),
                  "steps_K": [sp.get("steps") for sp in conc]}
    rep.outside = ["more handlers / watches / events", "handlers that re-add handlers or schedule new watches",
                   "more than one re-entrant call per handler", "running emitter threads (the emitter is told to stop; its "
                   "thread ending is C06's subject)", "two concurrent removing threads"]
    rep.stubs = ["threading models (Lock/RLock/Condition/Event/Thread); stdlib queue.Queue interpreted",
                 "QuietEmitter(EventEmitter): events are queued through the real EventEmitter.queue_event by the harness",
                 "the dispatcher is the real BaseObserver.dispatch_events, called the way EventDispatcher.run calls it"]
    rep.assumptions = ["a re-entrant call satisfies its own precondition (the handler/watch it removes is registered)",
                       "scheduling points (threads): lock acquisitions, wait resumptions, every access to "
                       "BaseObserver._handlers, the start of every callback",
                       "'returned' is stamped in the same scheduler step as the return of the removing call"]
