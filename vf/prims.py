"""Models of the threading primitives (trusted; stated in every evidence file that uses them).

Sequential mode (Engine A, vm.sched is None): one thread; blocking forever is an obligation
("blocks forever"), a timed wait returns after its timeout, Thread.start() only records.
Concurrent mode (Engine B, vm.sched set): the scheduler in conc.py gives acquire / wait-resume /
join their enabledness conditions and parks states at scheduling points.
"""
from __future__ import annotations

import threading
import time as time_mod
import z3

from .bexp import B, TRUE, FALSE, AND, OR, NOT, const, atom, to_z3
from .values import (Sym, Union, VObj, VInst, VList, VDict, VSet, VModel, NULL, UNDEF, Unsupported, merge, mk_union,
                     alts_of, truth, sym_bool)

_next_tag = [0]


def _tag():
    _next_tag[0] += 1
    return _next_tag[0]


def owner_is(lock, tid) -> B:
    o = lock.f["owner"]
    if type(o) is Union:
        return OR(*[g for g, x in o.alts if x == tid])
    return const(o == tid)


def owner_none(lock) -> B:
    o = lock.f["owner"]
    if type(o) is Union:
        return OR(*[g for g, x in o.alts if x is None])
    return const(o is None)


def wset(s, obj, name, v, g=TRUE):
    gg = AND(s.guard, g)
    if gg is FALSE:
        return
    if gg is obj.birth:
        gg = TRUE
    obj.set(name, v, gg)


def install(vm):
    vm.sched = None
    vm.blocked = []  # (guard, description, where): sequential-mode "blocks forever" obligations
    vm.clock = [0.0]
    vm.prim_violations = []  # (guard, description, where)
    reg = vm.register_model
    mm = vm.model_methods

    # ------------------------------------------------------------------ locks
    def new_lock(vm, s, args, kw):
        lk = VModel("lock", tag=_tag(), owner=None, count=0, reentrant=False)
        lk.birth = s.guard
        return lk

    def new_rlock(vm, s, args, kw):
        lk = VModel("lock", tag=_tag(), owner=None, count=0, reentrant=True, saved_count=0)
        lk.birth = s.guard
        return lk

    def lock_acquire(vm, s, lk, args, kw):
        blocking = args[0] if args else kw.get("blocking", True)
        timeout = args[1] if len(args) > 1 else kw.get("timeout", -1)
        if vm.sched is not None:
            return vm.sched.acquire(vm, s, lk, blocking, timeout)
        free = owner_none(lk)
        mine = owner_is(lk, s.tid)
        if lk.f["reentrant"]:
            ok = OR(free, mine)
            if ok is not TRUE:
                _block(vm, s, NOT(ok), f"acquire of {lk!r} held by another thread")
            cnt = lk.f["count"]
            from .opcodes import lift2, binop_atomic
            wset(s, lk, "count", lift2(vm, s, cnt, 1, lambda a, b: binop_atomic(vm, s, "+", a, b)))
            wset(s, lk, "owner", s.tid)
            return True
        if blocking is False or (timeout is not None and timeout != -1):
            wset(s, lk, "owner", s.tid, free)
            return sym_bool(free)
        if free is not TRUE:
            _block(vm, s, NOT(free), f"acquire of non-reentrant {lk!r} that is already held")
        wset(s, lk, "owner", s.tid)
        return True

    def lock_release(vm, s, lk, args, kw):
        mine = owner_is(lk, s.tid)
        if lk.f["reentrant"]:
            if mine is not TRUE:
                vm.raise_under(s, NOT(mine), RuntimeError("cannot release un-acquired lock"))
            cnt = lk.f["count"]
            from .opcodes import lift2, binop_atomic
            newc = lift2(vm, s, cnt, 1, lambda a, b: binop_atomic(vm, s, "-", a, b))
            zero = truth(lift2(vm, s, newc, 0, lambda a, b: binop_atomic(vm, s, "==", a, b)))
            wset(s, lk, "count", newc)
            wset(s, lk, "owner", None, zero)
            if vm.sched is not None:
                vm.sched.released(vm, s, lk)
            return None
        held = NOT(owner_none(lk))
        if held is not TRUE:
            vm.raise_under(s, NOT(held), RuntimeError("release unlocked lock"))
        wset(s, lk, "owner", None)
        if vm.sched is not None:
            vm.sched.released(vm, s, lk)
        return None

    def lock_enter(vm, s, lk, args, kw):
        return lock_acquire(vm, s, lk, [], {})

    def lock_exit(vm, s, lk, args, kw):
        lock_release(vm, s, lk, [], {})
        return False

    def lock_locked(vm, s, lk, args, kw):
        return sym_bool(NOT(owner_none(lk)))

    for nm, fn in (("acquire", lock_acquire), ("release", lock_release), ("__enter__", lock_enter),
                   ("__exit__", lock_exit), ("locked", lock_locked)):
        mm[("lock", nm)] = fn
    reg(threading.Lock, new_lock)
    reg(threading.RLock, new_rlock)
    import _thread
    reg(_thread.allocate_lock, new_lock)

    # ------------------------------------------------------------------ conditions
    def new_cond(vm, s, args, kw):
        lk = args[0] if args else kw.get("lock")
        if lk is None:
            lk = new_rlock(vm, s, [], {})
        c = VModel("cond", tag=_tag(), lock=lk, waiters=VList(birth=s.guard))
        c.birth = s.guard
        return c

    def cond_lock(c):
        return c.f["lock"]

    def cond_acquire(vm, s, c, args, kw):
        return lock_acquire(vm, s, cond_lock(c), args, kw)

    def cond_release(vm, s, c, args, kw):
        return lock_release(vm, s, cond_lock(c), args, kw)

    def cond_exit(vm, s, c, args, kw):
        lock_release(vm, s, cond_lock(c), [], {})
        return False

    def cond_wait(vm, s, c, args, kw):
        timeout = args[0] if args else kw.get("timeout")
        lk = cond_lock(c)
        if vm.sched is not None and s.frames[-1].phase == 1:
            return vm.sched.cond_wait(vm, s, c, timeout)  # resumption of a wait that already released the lock
        mine = owner_is(lk, s.tid)
        if mine is not TRUE:
            vm.raise_under(s, NOT(mine), RuntimeError("cannot wait on un-acquired lock"))
        if vm.sched is not None:
            return vm.sched.cond_wait(vm, s, c, timeout)
        if timeout is None:
            _block(vm, s, TRUE, f"wait() on {c!r} with nobody to notify (single thread)")
            return True
        _advance(vm, timeout)
        return False

    def cond_notify(vm, s, c, args, kw):
        n = args[0] if args else kw.get("n", 1)
        lk = cond_lock(c)
        mine = owner_is(lk, s.tid)
        if mine is not TRUE:
            vm.raise_under(s, NOT(mine), RuntimeError("cannot notify on un-acquired lock"))
        if vm.sched is not None:
            return vm.sched.cond_notify(vm, s, c, n)
        return None

    def cond_notify_all(vm, s, c, args, kw):
        return cond_notify(vm, s, c, [None], {})

    for nm, fn in (("acquire", cond_acquire), ("release", cond_release), ("__enter__", cond_acquire),
                   ("__exit__", cond_exit), ("wait", cond_wait), ("notify", cond_notify),
                   ("notify_all", cond_notify_all), ("notifyAll", cond_notify_all)):
        mm[("cond", nm)] = fn
    reg(threading.Condition, new_cond)

    # ------------------------------------------------------------------ events
    def new_event(vm, s, args, kw):
        e = VModel("event", tag=_tag(), flag=False)
        e.birth = s.guard
        return e

    def ev_set(vm, s, e, args, kw):
        if vm.sched is not None:
            vm.sched.visible(vm, s, ("event", e))
        wset(s, e, "flag", True)
        return None

    def ev_clear(vm, s, e, args, kw):
        if vm.sched is not None:
            vm.sched.visible(vm, s, ("event", e))
        wset(s, e, "flag", False)
        return None

    def ev_is_set(vm, s, e, args, kw):
        if vm.sched is not None:
            vm.sched.visible(vm, s, ("event", e))
        return sym_bool(truth(e.f["flag"]))

    def ev_wait(vm, s, e, args, kw):
        timeout = args[0] if args else kw.get("timeout")
        if vm.sched is not None:
            return vm.sched.event_wait(vm, s, e, timeout)
        fl = truth(e.f["flag"])
        if timeout is None:
            if fl is not TRUE:
                _block(vm, s, NOT(fl), f"wait() on {e!r} that nobody sets (single thread)")
            return True
        if fl is not TRUE:
            _advance(vm, timeout)
        return sym_bool(fl)

    for nm, fn in (("set", ev_set), ("clear", ev_clear), ("is_set", ev_is_set), ("isSet", ev_is_set),
                   ("wait", ev_wait)):
        mm[("event", nm)] = fn
    reg(threading.Event, new_event)

    # ------------------------------------------------------------------ threads (instances are VInst of the subclass)
    T = threading.Thread

    def th_init(vm, s, args, kw):
        self = args[0]
        self.set("_vt_started", False)
        self.set("_vt_finished", False)
        self.set("_vt_tid", None)
        self.set("daemon", kw.get("daemon", False) or False)
        self.set("name", kw.get("name") or f"Thread-{self.tag}")
        self.set("_target", kw.get("target"))
        self.set("_args", kw.get("args", ()))
        self.set("_kwargs", kw.get("kwargs") or {})
        vm.threads_created.append(self)
        return None

    def th_start(vm, s, args, kw):
        self = args[0]
        st = truth(self.get("_vt_started"))
        if st is not FALSE:
            vm.raise_under(s, st, RuntimeError("threads can only be started once"))
        if vm.sched is not None:
            return vm.sched.thread_start(vm, s, self)
        wset(s, self, "_vt_started", True)
        return None

    def th_is_alive(vm, s, args, kw):
        self = args[0]
        if vm.sched is not None:
            vm.sched.visible(vm, s, ("thread", self))
        return sym_bool(AND(truth(self.get("_vt_started")), NOT(truth(self.get("_vt_finished")))))

    def th_join(vm, s, args, kw):
        self = args[0]
        timeout = args[1] if len(args) > 1 else kw.get("timeout")
        st = truth(self.get("_vt_started"))
        if st is not TRUE:
            vm.raise_under(s, NOT(st), RuntimeError("cannot join thread before it is started"))
        if vm.sched is not None:
            return vm.sched.thread_join(vm, s, self, timeout)
        # sequential mode: the joined thread never ran; joining is modelled as "it has terminated"
        wset(s, self, "_vt_finished", True)
        return None

    def th_run(vm, s, args, kw):
        self = args[0]
        tgt = self.get("_target")
        if tgt is None:
            return None
        from .vm import _Pending
        a = self.get("_args")
        if type(a) is VList:
            a = [v for _, v in a.slots]
        return _Pending(vm.do_call(s, tgt, list(a), {}, ("push",)))

    def th_setdaemon(vm, s, args, kw):
        args[0].set("daemon", args[1], s.guard)
        return None

    def th_new(vm, s, args, kw):
        inst = VInst(T, birth=s.guard)
        vm.nobjects = getattr(vm, "nobjects", 0) + 1
        inst.tag = vm.nobjects
        th_init(vm, s, [inst] + list(args), kw)
        return inst

    def lift_self(fn):
        """thread methods called on a merged receiver: handle each alternative in its own worlds"""
        def m(vm, s, args, kw):
            if type(args[0]) is Union:
                from .vm import _Pending, JUMPED, Park

                def k(s2, alt):
                    r = fn(vm, s2, [alt] + list(args[1:]), kw)
                    if isinstance(r, _Pending):
                        return r.value
                    vm.deliver(s2, r, ("push",))
                    return JUMPED
                recv = vm.project(s, args[0], True)
                if type(recv) is Union:
                    return _Pending(vm.fork_union(s, recv, k))
                return fn(vm, s, [recv] + list(args[1:]), kw)
            return fn(vm, s, args, kw)
        return m

    reg(T, th_new)
    reg(T.__init__, th_init)
    reg(T.start, lift_self(th_start))
    reg(T.is_alive, lift_self(th_is_alive))
    reg(T.join, lift_self(th_join))
    reg(T.run, lift_self(th_run))
    reg(T.setDaemon, th_setdaemon)
    vm.threads_created = []

    def cur_thread(vm, s, args, kw):
        return vm.thread_objs.get(s.tid)
    vm.thread_objs = {}
    reg(threading.current_thread, cur_thread)

    # ------------------------------------------------------------------ time
    def t_time(vm, s, args, kw):
        if vm.sched is not None:
            return vm.sched.now(vm, s)
        return vm.clock_value()

    def t_sleep(vm, s, args, kw):
        if vm.sched is not None:
            return vm.sched.sleep(vm, s, args[0])
        _advance(vm, args[0])
        return None

    reg(time_mod.time, t_time)
    reg(time_mod.monotonic, t_time)
    reg(time_mod.sleep, t_sleep)
    vm.clock_value = lambda: vm.clock[0]


def _advance(vm, d):
    c = vm.clock[0]
    if isinstance(d, (int, float)) and isinstance(c, (int, float)):
        vm.clock[0] = c + d
    else:
        vm.clock[0] = c  # symbolic durations: sequential harnesses do not depend on absolute time


def _block(vm, s, g, what):
    """sequential mode: the worlds s.guard & g would block forever"""
    gg = AND(s.guard, g)
    if gg is FALSE:
        return
    if vm.use_solver and not vm.feasible(gg):
        return
    vm.blocked.append((gg, what, s.where()))
    from fractions import Fraction
    from .vm import _fork_ids
    s.orig = s.orig + ((s.guard, Fraction(1, 2), next(_fork_ids)),)  # the blocked share never comes back
    s.guard = AND(s.guard, NOT(g))
    vm.lost = True
