"""File system + inotify kernel model for the history properties (C01, C02, C03, C07, C19), written as ordinary
Python that the VM interprets.  Contract: inotify(7) (see DESIGN.md section 6 for the event table).

Paths are byte strings over a small universe; every entry has an inode; watches are attached to inodes (they
follow renames and survive a move out of the tree, exactly the situation the library has to track)."""
from __future__ import annotations

import errno

from . import api

IN_MODIFY = 0x2
IN_ATTRIB = 0x4
IN_CLOSE_WRITE = 0x8
IN_OPEN = 0x20
IN_MOVED_FROM = 0x40
IN_MOVED_TO = 0x80
IN_CREATE = 0x100
IN_DELETE = 0x200
IN_DELETE_SELF = 0x400
IN_IGNORED = 0x8000
IN_ISDIR = 0x40000000


def norm(p):
    """kernel view of a path: a trailing slash does not matter"""
    if len(p) > 1 and p.endswith(b"/"):
        return p[:-1]
    return p


def jn(top, name):
    return top + name if top.endswith(b"/") else top + b"/" + name


def parent_of(p):
    return p.rsplit(b"/", 1)[0]


def base_of(p):
    return p.rsplit(b"/", 1)[1]


class FS:
    def __init__(self, root, entries):
        """entries: sequence of (path, 'd'|'f'), parents first; root and the outside directory included"""
        self.root = root
        self.kind = {}
        self.inode = {}
        self.next_ino = 100
        for p, k in entries:
            self.kind[p] = k
            self.inode[p] = self.next_ino
            self.next_ino = self.next_ino + 1
        # kernel side of inotify
        self.wd_of_ino = {}
        self.next_wd = 1
        self.queue = []
        self.next_cookie = 1000
        self.stop_flag = None     # Event to set when the queue runs empty (ends InotifyBuffer.run after the batch)
        self.one_per_read = False
        self.errno = 0
        self.fds_open = 0
        # transient failure of one inotify_add_watch call made after start-up (the entry changed under the library's feet)
        self.armed = False
        self.nadd = 0
        self.fault_n = 0
        self.fault_errno = errno.ENOENT

    # ------------------------------------------------------------------ helpers
    def exists(self, p):
        return p in self.kind

    def isdir(self, p):
        p = norm(p)
        return (p in self.kind) and (self.kind[p] == "d")

    def children(self, top):
        out = []
        for p in list(self.kind.keys()):
            if p != top and parent_of(p) == top:
                out.append(p)
        return out

    def emit(self, dirpath, mask, cookie, name):
        """queue an event for the watch on directory `dirpath` (if that inode is watched)"""
        if dirpath in self.inode:
            ino = self.inode[dirpath]
            if ino in self.wd_of_ino:
                self.queue.append((self.wd_of_ino[ino], mask, cookie, name))

    def emit_self(self, path, mask):
        self.emit(path, mask, 0, b"")

    def drop_watch(self, path):
        """the watched inode at `path` is gone: IN_IGNORED, descriptor retired"""
        if path in self.inode:
            ino = self.inode[path]
            if ino in self.wd_of_ino:
                self.queue.append((self.wd_of_ino[ino], IN_IGNORED, 0, b""))
                del self.wd_of_ino[ino]

    def _d(self, p):
        return IN_ISDIR if self.kind[p] == "d" else 0

    # ------------------------------------------------------------------ operations (preconditions are the caller's)
    def create(self, p):
        self.kind[p] = "f"
        self.inode[p] = self.next_ino
        self.next_ino = self.next_ino + 1
        par = parent_of(p)
        nm = base_of(p)
        self.emit(par, IN_CREATE, 0, nm)
        self.emit(par, IN_OPEN, 0, nm)
        self.emit(par, IN_CLOSE_WRITE, 0, nm)

    def mkdir(self, p):
        self.kind[p] = "d"
        self.inode[p] = self.next_ino
        self.next_ino = self.next_ino + 1
        self.emit(parent_of(p), IN_CREATE | IN_ISDIR, 0, base_of(p))

    def write(self, p):
        par = parent_of(p)
        nm = base_of(p)
        self.emit(par, IN_OPEN, 0, nm)
        self.emit(par, IN_MODIFY, 0, nm)
        self.emit(par, IN_CLOSE_WRITE, 0, nm)

    def chmod(self, p):
        self.emit(parent_of(p), IN_ATTRIB | self._d(p), 0, base_of(p))
        if self.kind[p] == "d":
            self.emit_self(p, IN_ATTRIB | IN_ISDIR)

    def unlink(self, p):
        par = parent_of(p)
        nm = base_of(p)
        del self.kind[p]
        del self.inode[p]
        self.emit(par, IN_DELETE, 0, nm)

    def rmdir(self, p):
        """p is an empty directory"""
        self.emit_self(p, IN_DELETE_SELF)
        self.drop_watch(p)
        par = parent_of(p)
        nm = base_of(p)
        del self.kind[p]
        del self.inode[p]
        self.emit(par, IN_DELETE | IN_ISDIR, 0, nm)

    def rename(self, src, dst):
        """rename src to dst (dst does not exist); whole sub-trees move; works across the tree boundary"""
        d = self._d(src)
        c = self.next_cookie
        self.next_cookie = self.next_cookie + 1
        self.emit(parent_of(src), IN_MOVED_FROM | d, c, base_of(src))
        moved = []
        for p in list(self.kind.keys()):
            if p == src or p.startswith(src + b"/"):
                moved.append(p)
        for p in moved:
            q = dst + p[len(src):]
            self.kind[q] = self.kind[p]
            self.inode[q] = self.inode[p]
        for p in moved:
            del self.kind[p]
            del self.inode[p]
        self.emit(parent_of(dst), IN_MOVED_TO | d, c, base_of(dst))

    # ------------------------------------------------------------------ the library's seams
    def inotify_init(self):
        self.fds_open = self.fds_open + 1
        return 3

    def pipe(self):
        self.fds_open = self.fds_open + 2
        return (4, 5)

    def close_fd(self, fd):
        self.fds_open = self.fds_open - 1

    def add_watch(self, fd, path, mask):
        if self.armed:
            self.nadd = self.nadd + 1
            if self.nadd == self.fault_n:
                self.errno = self.fault_errno
                return -1
        path = norm(path)
        if path not in self.kind:
            self.errno = errno.ENOENT
            return -1
        if self.kind[path] != "d":
            self.errno = errno.ENOTDIR
            return -1
        ino = self.inode[path]
        if ino in self.wd_of_ino:
            return self.wd_of_ino[ino]
        wd = self.next_wd
        self.next_wd = self.next_wd + 1
        self.wd_of_ino[ino] = wd
        return wd

    def rm_watch(self, fd, wd):
        for ino in list(self.wd_of_ino.keys()):
            if self.wd_of_ino[ino] == wd:
                del self.wd_of_ino[ino]
                self.queue.append((wd, IN_IGNORED, 0, b""))
        return 0

    def get_errno(self):
        return self.errno

    def poll_ready(self):
        return [(3, 1)]

    def read(self, fd, size):
        """hands the queued events to the reader (through the _parse_event_buffer seam); when the queue runs
        empty the reader loop is told to finish after this batch"""
        if self.one_per_read:
            self.batch = [self.queue.pop(0)]
        else:
            self.batch = list(self.queue)
            self.queue.clear()
        if len(self.queue) == 0 and self.stop_flag is not None:
            self.stop_flag.set()
        return b"<batch>"

    def parse(self, buf):
        return self.batch

    def walk(self, top, followlinks=False):
        out = []
        if not self.isdir(top):
            return out
        dirs = []
        files = []
        for p in self.children(norm(top)):
            if self.kind[p] == "d":
                dirs.append(base_of(p))
            else:
                files.append(base_of(p))
        out.append((top, dirs, files))
        for d in dirs:
            for x in self.walk(jn(top, d)):
                out.append(x)
        return out


class FakePoller:
    def __init__(self, fs):
        self.fs = fs

    def register(self, fd, mask):
        return None

    def poll(self, timeout=None):
        return self.fs.poll_ready()


_CUR = {}


def use_fs(fs):
    _CUR["fs"] = fs
    return None


def _decode(p):
    import os
    return p if isinstance(p, bytes) else os.fsencode(p)


def install(vm):
    import ctypes
    import os
    import select
    import watchdog.observers.inotify_c as ic
    from .vm import _Pending

    def use_fs_model(vm, s, args, kw):
        vm.fs = args[0]
        return None
    vm.register_model(use_fs, use_fs_model)

    def bind(target, method, nargs=None, encode_path=None):
        def m(vm, s, args, kw):
            fn = getattr(FS, method)
            a = list(args) if nargs is None else list(args)[:nargs]
            return _Pending(vm.do_call(s, fn, [vm.fs] + a, {}, ("push",)))
        vm.register_model(target, m)
    bind(ic.inotify_init, "inotify_init")
    bind(ic.inotify_add_watch, "add_watch")
    bind(ic.inotify_rm_watch, "rm_watch")
    bind(os.pipe, "pipe")
    bind(os.close, "close_fd")
    bind(os.read, "read")
    bind(ctypes.get_errno, "get_errno")
    bind(ic.Inotify._parse_event_buffer, "parse")
    vm.register_model(os.write, lambda vm, s, a, k: 1)
    vm.register_model(os.path.islink, lambda vm, s, a, k: False)

    def path_model(method):
        def m(vm, s, args, kw):
            from .opcodes import lift1
            p = lift1(vm, s, args[0], lambda x: x if isinstance(x, bytes) else os.fsencode(x))
            was_str = lift1(vm, s, args[0], lambda x: not isinstance(x, bytes))
            if method == "walk":
                return _Pending(vm.do_call(s, walk_typed, [vm.fs, args[0]], {}, ("push",)))
            return _Pending(vm.do_call(s, getattr(FS, method), [vm.fs, p], {}, ("push",)))
        return m
    vm.register_model(os.path.isdir, path_model("isdir"))
    vm.register_model(os.walk, path_model("walk"))

    def poll_model(vm, s, args, kw):
        return _Pending(vm.construct(s, FakePoller, [vm.fs], {}, ("push",)))
    vm.register_model(select.poll, poll_model)
    for m in ("vf.fsmodel",):
        if m not in vm.encode:
            vm.encode = vm.encode + (m,)


def walk_typed(fs, top):
    """os.walk as the library calls it: yields paths of the type it was given (bytes or str)"""
    import os
    if isinstance(top, bytes):
        return fs.walk(top)
    out = []
    for root, dirs, files in fs.walk(os.fsencode(top)):
        out.append((os.fsdecode(root), [os.fsdecode(d) for d in dirs], [os.fsdecode(f) for f in files]))
    return out


def native_ctx():
    import contextlib
    from unittest import mock

    @contextlib.contextmanager
    def ctx():
        F = lambda: _CUR["fs"]  # noqa: E731
        import os
        real_isdir = os.path.isdir
        with contextlib.ExitStack() as st:
            P = lambda *a, **k: st.enter_context(mock.patch(*a, **k))  # noqa: E731
            P("watchdog.observers.inotify_c.inotify_init", lambda: F().inotify_init())
            P("watchdog.observers.inotify_c.inotify_add_watch", lambda fd, path, mask: F().add_watch(fd, path, mask))
            P("watchdog.observers.inotify_c.inotify_rm_watch", lambda fd, wd: F().rm_watch(fd, wd))
            P("watchdog.observers.inotify_c.Inotify._parse_event_buffer", staticmethod(lambda buf: F().parse(buf)))
            P("os.pipe", lambda: F().pipe())
            P("os.close", lambda fd: F().close_fd(fd))
            P("os.read", lambda fd, n: F().read(fd, n))
            P("os.write", lambda fd, d: 1)
            P("ctypes.get_errno", lambda: F().get_errno())
            P("os.path.isdir", lambda p: F().isdir(_decode(p)))
            P("os.path.islink", lambda p: False)
            P("os.walk", lambda top, **kw: walk_typed(F(), top))
            P("select.poll", lambda: FakePoller(F()))
            # the pipeline is driven by the harness: library threads are created but never run
            P("threading.Thread.start", lambda self: None)
            P("threading.Thread.join", lambda self, timeout=None: None)
            yield
    return ctx()
