"""Value domain of the symbolic VM.

  concrete Python objects | Sym (symbolic bool/int/real) | Union (guarded alternatives)
  | VM heap objects (VInst, VList, VDict, VSet, VCell, VFunc, VMethod, VGen, ...)

Finite-domain quantities are Unions of concrete values under Boolean guards; only genuinely
numeric quantities (inode numbers, sizes, times, counters) are z3 arithmetic terms.
"""
from __future__ import annotations

import operator
import z3

from .bexp import B, TRUE, FALSE, AND, OR, NOT, atom, to_z3, const, compact


class Unsupported(Exception):
    """The VM met a construct it has no semantics for: the run is inconclusive."""


class _Sentinel:
    def __init__(self, name):
        self.name = name

    def __repr__(self):
        return self.name


NULL = _Sentinel("<NULL>")  # unbound local / empty stack slot
UNDEF = _Sentinel("<UNDEF>")  # attribute / dict slot not present
MISSING = _Sentinel("<MISSING>")  # lookup failed (internal)

ATOMS = (int, str, bytes, bool, float, type(None))


LIMITS = {'int_union': 8}


class Sym:
    __slots__ = ("sort", "e")

    def __init__(self, sort, e):
        self.sort = sort  # 'bool' | 'int' | 'real'
        self.e = e  # bool: B ; int/real: z3 ArithRef

    def __repr__(self):
        return f"Sym({self.sort}:{self.e})"


def sym_bool(b):
    if b is TRUE:
        return True
    if b is FALSE:
        return False
    if isinstance(b, bool):
        return b
    return Sym("bool", b)


def sym_num(e):
    """wrap a z3 arithmetic term; fold literals back to Python numbers"""
    if z3.is_int_value(e):
        return e.as_long()
    return Sym("int" if e.sort() == z3.IntSort() else "real", e)


class Union:
    __slots__ = ("alts",)

    def __init__(self, alts):
        self.alts = tuple(alts)

    def __repr__(self):
        return "Union[" + ", ".join(f"{g!r}->{v!r}" for g, v in self.alts) + "]"


def alts_of(v):
    if type(v) is Union:
        return v.alts
    return ((TRUE, v),)


def num_z3(v, want_real=False):
    if type(v) is Sym:
        if v.sort == "bool":
            return z3.If(to_z3(v.e), 1, 0)
        if want_real and v.sort == "int":
            return z3.ToReal(v.e)
        return v.e
    if isinstance(v, bool):
        v = int(v)
    if isinstance(v, int):
        return z3.RealVal(v) if want_real else z3.IntVal(v)
    if isinstance(v, float):
        return z3.RealVal(repr(v))
    raise Unsupported(f"not numeric: {v!r}")


def mk_union(pairs):
    """Build a value from guarded alternatives (guards assumed mutually exclusive)."""
    flat = []
    for g, v in pairs:
        if g is FALSE:
            continue
        if type(v) is Union:
            for g2, v2 in v.alts:
                gg = AND(g, g2)
                if gg is not FALSE:
                    flat.append((gg, v2))
        else:
            flat.append((g, v))
    if not flat:
        return UNDEF
    if len(flat) == 1:
        return flat[0][1]
    groups = {}
    order = []
    symsorts = set()
    for g, v in flat:
        tv = type(v)
        if tv is not Sym and isinstance(v, Sym):
            k = ("o", id(v))   # lazily built counts stay separate alternatives (their term is built only on demand)
            tv = None
        if tv is None:
            pass
        elif tv is Sym:
            k = ("s", v.sort)
            symsorts.add(v.sort)
        elif tv in (int, str, bytes, bool, float) or v is None:
            k = ("c", tv, v)
        else:
            k = ("o", id(v))
        if k in groups:
            groups[k][0].append(g)
        else:
            groups[k] = ([g], v, [(g, v)])
            order.append(k)
            continue
        groups[k][2].append((g, v))
    # many distinct concrete ints (e.g. bit masks accumulated under symbolic conditions): one bit-vector term
    nints = [k for k in order if k[0] == "c" and k[1] is int]
    if (len(nints) > LIMITS['int_union'] or "bits" in symsorts) and all(0 <= k[2] < (1 << 62) for k in nints) and nints:
        if "bits" not in symsorts:
            symsorts.add("bits")
            k0 = nints[0]
            gs0, v0, mem0 = groups.pop(k0)
            order[order.index(k0)] = ("s", "bits")
            groups[("s", "bits")] = (gs0, Sym("bits", z3.BitVecVal(v0, 64)), [(g, Sym("bits", z3.BitVecVal(x, 64))) for g, x in mem0])
            nints = nints[1:]
        for k in nints:
            gs1, v1, mem1 = groups.pop(k)
            order.remove(k)
            groups[("s", "bits")][0].extend(gs1)
            groups[("s", "bits")][2].extend([(g, Sym("bits", z3.BitVecVal(x, 64))) for g, x in mem1])
    # fold concrete scalars into a symbolic group of the same sort
    if symsorts:
        for k in list(order):
            if k[0] == "c":
                t = k[1]
                tgt = None
                if t is bool and "bool" in symsorts:
                    tgt = ("s", "bool")
                elif t is int and "int" in symsorts:
                    tgt = ("s", "int")
                elif t in (int, float) and "real" in symsorts:
                    tgt = ("s", "real")
                if tgt is not None:
                    groups[tgt][0].extend(groups[k][0])
                    groups[tgt][2].extend(groups[k][2])
                    order.remove(k)
                    del groups[k]
    out = []
    for k in order:
        gs, v, members = groups[k]
        g = compact(OR(*gs) if len(gs) > 1 else gs[0])
        if k[0] == "s" and len(members) > 1:
            sort = k[1]
            if sort == "bool":
                e = OR(*[AND(gi, (vi.e if type(vi) is Sym else const(bool(vi)))) for gi, vi in members])
                v = sym_bool(e)
            elif sort in ("bv", "bits"):
                e = members[-1][1].e
                for gi, vi in reversed(members[:-1]):
                    e = z3.If(to_z3(compact(gi)), vi.e, e)
                v = Sym(sort, e)
            else:
                want_real = sort == "real"
                e = num_z3(members[-1][1], want_real)
                for gi, vi in reversed(members[:-1]):
                    e = z3.If(to_z3(compact(gi)), num_z3(vi, want_real), e)
                v = Sym(sort, e)
        out.append((g, v))
    if len(out) == 1:
        return out[0][1]
    return Union(out)


def merge(g: B, a, b):
    """value that is `a` where g holds and `b` elsewhere"""
    if a is b:
        return a
    if g is TRUE:
        return a
    if g is FALSE:
        return b
    ta = type(a)
    if ta is type(b) and ta in (int, str, bytes, bool, float) and a == b:
        return a
    return mk_union([(g, a), (NOT(g), b)])


def is_concrete(v) -> bool:
    t = type(v)
    if t is Sym or t is Union:
        return False
    if isinstance(v, VObj):
        return False
    if t is tuple:
        return all(is_concrete(x) for x in v)
    return True


# --------------------------------------------------------------------------- heap objects


class VObj:
    """base of VM heap objects (mutable, shared by all states; writes are guarded)"""
    __slots__ = ("birth", "__weakref__")


class VInst(VObj):
    __slots__ = ("cls", "fields", "tag")

    def __init__(self, cls, birth=TRUE, tag=None):
        self.cls = cls
        self.fields = {}
        self.birth = birth
        self.tag = tag

    def __repr__(self):
        return f"<VInst {self.cls.__name__}{'#' + str(self.tag) if self.tag else ''}>"

    def get(self, name):
        return self.fields.get(name, UNDEF)

    def set(self, name, v, g=TRUE):
        old = self.fields.get(name, UNDEF)
        self.fields[name] = merge(g, v, old)


class VCell(VObj):
    __slots__ = ("v",)

    def __init__(self, v=NULL):
        self.v = v
        self.birth = TRUE

    def set(self, v, g=TRUE):
        self.v = merge(g, v, self.v)


class VList(VObj):
    """ordered list of [presence-guard, value] slots; also models deque"""
    __slots__ = ("slots", "kind")

    def __init__(self, items=(), kind="list", birth=TRUE):
        self.slots = [[TRUE, v] for v in items]
        self.kind = kind
        self.birth = birth

    def __repr__(self):
        return f"<V{self.kind} {[(g, v) for g, v in self.slots]}>"

    def present_any(self) -> B:
        return OR(*[p for p, _ in self.slots])

    def is_plain(self):
        return all(p is TRUE for p, _ in self.slots)


class SlotRef:
    """index value produced by enumerate() over a VList: denotes slot j (position symbolic)"""
    __slots__ = ("lst", "j", "before")

    def __init__(self, lst, j, before=()):
        self.lst = lst
        self.j = j
        self.before = before  # presence guards of the slots in front of j when the index was produced

    def __repr__(self):
        return f"<slot {self.j}>"


class VDict(VObj):
    __slots__ = ("slots", "assoc", "default_factory", "kind")

    def __init__(self, kind="dict", birth=TRUE, default_factory=None):
        self.slots = {}  # concrete key -> [present B, value]
        self.assoc = []  # [(guard, keyvalue(with Sym), value)] later entries shadow earlier
        self.kind = kind
        self.birth = birth
        self.default_factory = default_factory

    def __repr__(self):
        return f"<V{self.kind} {self.slots} {self.assoc}>"


class VSet(VObj):
    __slots__ = ("slots", "frozen")

    def __init__(self, birth=TRUE, frozen=False):
        self.slots = {}  # concrete key -> present B
        self.birth = birth
        self.frozen = frozen

    def __repr__(self):
        return f"<Vset {self.slots}>"


class VFunc(VObj):
    __slots__ = ("code", "globals", "defaults", "kwdefaults", "closure", "name", "pyfunc", "qualname")

    def __init__(self, code, globals_, defaults=(), kwdefaults=None, closure=(), name=None, pyfunc=None):
        self.code = code
        self.globals = globals_
        self.defaults = defaults
        self.kwdefaults = kwdefaults or {}
        self.closure = closure
        self.name = name or code.co_name
        self.qualname = code.co_qualname
        self.pyfunc = pyfunc
        self.birth = TRUE

    def __repr__(self):
        return f"<VFunc {self.qualname}>"


class VMethod(VObj):
    __slots__ = ("func", "self")

    def __init__(self, func, self_):
        self.func = func
        self.self = self_
        self.birth = TRUE

    def __repr__(self):
        return f"<VMethod {self.func!r} of {self.self!r}>"


class VBuiltinMethod(VObj):
    """method of a VM container / primitive model: dispatched by (kind, name)"""
    __slots__ = ("obj", "name")

    def __init__(self, obj, name):
        self.obj = obj
        self.name = name
        self.birth = TRUE

    def __repr__(self):
        return f"<builtin-method {self.name} of {self.obj!r}>"


class VIter(VObj):
    """immutable iterator position over a snapshot sequence of (guard, value) pairs"""
    __slots__ = ("seq", "i", "src", "_nxt")

    def __init__(self, seq, i=0, src=None):
        self.seq = seq
        self.i = i
        self.src = src
        self.birth = TRUE
        self._nxt = None

    def next(self):
        if self._nxt is None:
            self._nxt = VIter(self.seq, self.i + 1, self.src)
        return self._nxt

    def __repr__(self):
        return f"<VIter {self.i}/{len(self.seq)}>"


class VGen(VObj):
    __slots__ = ("frame", "done", "running")

    def __init__(self, frame):
        self.frame = frame  # suspended Frame | None ; may become Union of frames
        self.done = FALSE
        self.birth = TRUE


class VSuper(VObj):
    __slots__ = ("cls", "obj")

    def __init__(self, cls, obj):
        self.cls = cls
        self.obj = obj
        self.birth = TRUE


class VModel(VObj):
    """instance of an environment/primitive model (lock, condition, event, ...)"""
    __slots__ = ("kind", "f", "tag")

    def __init__(self, kind, tag=None, **fields):
        self.kind = kind
        self.f = dict(fields)
        self.tag = tag
        self.birth = TRUE

    def __repr__(self):
        return f"<{self.kind}{'#' + str(self.tag) if self.tag is not None else ''}>"

    def get(self, name):
        return self.f.get(name, UNDEF)

    def set(self, name, v, g=TRUE):
        self.f[name] = merge(g, v, self.f.get(name, UNDEF))


# --------------------------------------------------------------------------- scalar operations

_CMP = {"<": operator.lt, "<=": operator.le, "==": operator.eq, "!=": operator.ne, ">": operator.gt,
        ">=": operator.ge}
_ARITH = {"+": operator.add, "-": operator.sub, "*": operator.mul, "/": operator.truediv,
          "//": operator.floordiv, "%": operator.mod, "&": operator.and_, "|": operator.or_,
          "^": operator.xor, "<<": operator.lshift, ">>": operator.rshift, "**": operator.pow,
          "@": operator.matmul}


def _isnum(v):
    return isinstance(v, (int, float)) or (type(v) is Sym)


def sym_binop(op, a, b):
    """a, b atomic (non-Union); at least one Sym.  Returns value."""
    sa = a.sort if type(a) is Sym else None
    sb = b.sort if type(b) is Sym else None
    if sa == "bits" or sb == "bits":
        def bz(v, sv):
            if sv == "bits":
                return v.e
            if isinstance(v, bool):
                v = int(v)
            if isinstance(v, int) and 0 <= v < (1 << 62):
                return z3.BitVecVal(v, 64)
            raise Unsupported(f"bit-vector operation with {v!r}")
        if op in ("==", "!=") and not ((sa or isinstance(a, int)) and (sb or isinstance(b, int))):
            return op == "!="
        za, zb = bz(a, sa), bz(b, sb)
        if op == "+":
            return _bits(za + zb)
        if op == "-":
            return _bits(za - zb)
        if op == "&":
            return _bits(za & zb)
        if op == "|":
            return _bits(za | zb)
        if op == "^":
            return _bits(za ^ zb)
        if op == "==":
            return sym_bool(atom(za == zb))
        if op == "!=":
            return sym_bool(atom(za != zb))
        if op == ">":
            return sym_bool(atom(z3.UGT(za, zb)))
        if op == ">=":
            return sym_bool(atom(z3.UGE(za, zb)))
        if op == "<":
            return sym_bool(atom(z3.ULT(za, zb)))
        if op == "<=":
            return sym_bool(atom(z3.ULE(za, zb)))
        raise Unsupported(f"operator {op} on a bit-vector encoded integer")
    if sa == "bv" or sb == "bv":
        if op not in ("==", "!="):
            raise Unsupported("identifiers support only equality")
        if sa != "bv" or sb != "bv":
            if isinstance(a, int) or isinstance(b, int):
                r = (a.e if sa else a) == (b.e if sb else b)
                return sym_bool(atom(r) if op == "==" else NOT(atom(r)))
            return op == "!="
        r = atom(a.e == b.e)
        return sym_bool(r if op == "==" else NOT(r))
    if op in _CMP:
        if (sa == "bool" or isinstance(a, bool)) and (sb == "bool" or isinstance(b, bool)) and op in ("==", "!="):
            ea = a.e if sa else const(a)
            eb = b.e if sb else const(b)
            from .bexp import IFF
            r = IFF(ea, eb)
            return sym_bool(r if op == "==" else NOT(r))
        if not (_isnum(a) and _isnum(b)):
            if op == "==":
                return False
            if op == "!=":
                return True
            raise Unsupported(f"compare {op} {a!r} {b!r}")
        real = "real" in (sa, sb) or isinstance(a, float) or isinstance(b, float)
        za, zb = num_z3(a, real), num_z3(b, real)
        return sym_bool(atom(z3.simplify(_CMP[op](za, zb))))
    if op in ("&", "|", "^") and (sa == "bool" or isinstance(a, bool)) and (sb == "bool" or isinstance(b, bool)):
        ea = a.e if sa else const(a)
        eb = b.e if sb else const(b)
        if op == "&":
            return sym_bool(AND(ea, eb))
        if op == "|":
            return sym_bool(OR(ea, eb))
        return sym_bool(OR(AND(ea, NOT(eb)), AND(NOT(ea), eb)))
    if op in ("+", "-", "*", "/", "//", "%"):
        if not (_isnum(a) and _isnum(b)):
            raise Unsupported(f"arith {op} {a!r} {b!r}")
        real = "real" in (sa, sb) or isinstance(a, float) or isinstance(b, float) or op == "/"
        za, zb = num_z3(a, real), num_z3(b, real)
        if op == "+":
            r = za + zb
        elif op == "-":
            r = za - zb
        elif op == "*":
            r = za * zb
        elif op == "/":
            r = za / zb
        elif op == "//":
            if real:
                raise Unsupported("real floor division")
            r = za / zb  # z3 Int division: floor for positive divisor (euclidean); caller beware
        else:
            r = za % zb
        return sym_num(z3.simplify(r))
    raise Unsupported(f"symbolic op {op} {a!r} {b!r}")


def _bits(e):
    if z3.is_bv_value(e):
        return e.as_long()
    return Sym("bits", e)


def truth_atomic(v):
    """truthiness of an atomic value -> bool | B"""
    t = type(v)
    if t is not Sym and isinstance(v, Sym):
        n_true, rest = v.guards
        return TRUE if n_true else OR(*rest)
    if t is Sym:
        if v.sort == "bool":
            return v.e
        return atom(v.e != 0)
    if isinstance(v, VObj):
        if t is VList:
            return v.present_any()
        if t is VDict:
            if v.assoc:
                raise Unsupported("truth of dict with symbolic keys")
            return OR(*[p for p, _ in v.slots.values()])
        if t is VSet:
            return OR(*v.slots.values())
        return TRUE
    if v is NULL or v is UNDEF:
        raise Unsupported("truth of unbound value")
    return const(bool(v))


def truth(v) -> B:
    if type(v) is Union:
        return OR(*[AND(g, truth_atomic(x)) for g, x in v.alts])
    return truth_atomic(v)
