"""Lifted semantics of the CPython 3.12 opcodes used by the code under verification."""
from __future__ import annotations

import builtins
import operator
import types

from .bexp import TRUE, FALSE, AND, OR, NOT, const
from .values import (Sym, Union, VObj, VInst, VList, VDict, VSet, VCell, VFunc, VMethod, VBuiltinMethod, VIter,
                     VGen, VSuper, VModel, SlotRef, NULL, UNDEF, Unsupported, merge, mk_union, alts_of, truth,
                     sym_bool, is_concrete, sym_binop, _CMP, _ARITH)
from .vm import op, VM, VMRaise, JUMPED, MISSING, static_lookup, CodeInfo, Frame, vmerge, mark_fork
from . import containers as C

# ------------------------------------------------------------------------------- trivial / stack


@op("RESUME", "NOP", "CACHE", "EXTENDED_ARG", "MAKE_CELL_NOOP")
def _nop(vm, s, f, ins):
    return None


@op("POP_TOP")
def _pop_top(vm, s, f, ins):
    f.stack.pop()


@op("END_FOR")
def _end_for(vm, s, f, ins):
    f.stack.pop()
    f.stack.pop()


@op("END_SEND")
def _end_send(vm, s, f, ins):
    v = f.stack.pop()
    f.stack[-1] = v


@op("PUSH_NULL")
def _push_null(vm, s, f, ins):
    f.stack.append(NULL)


@op("COPY")
def _copy(vm, s, f, ins):
    f.stack.append(f.stack[-ins.arg])


@op("SWAP")
def _swap(vm, s, f, ins):
    st = f.stack
    st[-1], st[-ins.arg] = st[-ins.arg], st[-1]


@op("LOAD_CONST")
def _load_const(vm, s, f, ins):
    f.stack.append(ins.argval)


@op("RETURN_CONST")
def _return_const(vm, s, f, ins):
    return _do_return(vm, s, f, ins.argval)


@op("RETURN_VALUE")
def _return_value(vm, s, f, ins):
    return _do_return(vm, s, f, f.stack.pop())


def _do_return(vm, s, f, val):
    if f.resume_kind is not None:
        return vm.gen_return(s, f, val)
    s.frames.pop()
    vm.landed = True
    if not s.frames:
        s.status = "done"
        s.result = val
        return JUMPED
    vm.deliver(s, val, f.on_return)
    return JUMPED


# ------------------------------------------------------------------------------- locals / cells / globals


@op("LOAD_FAST", "LOAD_FAST_CHECK")
def _load_fast(vm, s, f, ins):
    v = f.locals[ins.arg]
    if v is NULL:
        raise VMRaise(UnboundLocalError(f"local variable '{ins.argval}' referenced before assignment"))
    if type(v) is Union:
        v = _check_bound(vm, s, v, ins.argval)
        f.locals[ins.arg] = v
    f.stack.append(v)


def _check_bound(vm, s, v, name):
    bad = [g for g, x in v.alts if x is NULL or x is UNDEF]
    if bad:
        b = OR(*bad)
        good = [(g, x) for g, x in v.alts if x is not NULL and x is not UNDEF and AND(s.guard, g) is not FALSE]
        if vm.feasible(AND(s.guard, s.cg, b)):
            if not good:
                raise VMRaise(UnboundLocalError(f"'{name}' unbound"))
            vm.raise_under(s, b, UnboundLocalError(f"'{name}' possibly unbound"))
        v = mk_union(good)
    return v


@op("LOAD_FAST_AND_CLEAR")
def _load_fast_and_clear(vm, s, f, ins):
    f.stack.append(f.locals[ins.arg])
    f.locals[ins.arg] = NULL


@op("STORE_FAST")
def _store_fast(vm, s, f, ins):
    f.locals[ins.arg] = f.stack.pop()


@op("DELETE_FAST")
def _delete_fast(vm, s, f, ins):
    f.locals[ins.arg] = NULL


@op("MAKE_CELL")
def _make_cell(vm, s, f, ins):
    f.locals[ins.arg] = VCell(f.locals[ins.arg])
    f.locals[ins.arg].birth = s.guard


@op("COPY_FREE_VARS")
def _copy_free_vars(vm, s, f, ins):
    n = ins.arg
    base = f.ci.nlocalsplus - n
    if type(f.func) is Union:
        for i in range(n):
            f.locals[base + i] = mk_union([(g, vf.closure[i]) for g, vf in f.func.alts])
        return None
    clo = f.func.closure
    for i in range(n):
        f.locals[base + i] = clo[i]


@op("LOAD_CLOSURE")
def _load_closure(vm, s, f, ins):
    f.stack.append(f.locals[ins.arg])


@op("LOAD_DEREF")
def _load_deref(vm, s, f, ins):
    c = f.locals[ins.arg]
    if type(c) is Union:
        v = mk_union([(g, x.v) for g, x in c.alts])
    else:
        v = c.v
    if v is NULL:
        raise VMRaise(NameError(f"free variable '{ins.argval}' referenced before assignment"))
    if type(v) is Union:
        v = _check_bound(vm, s, v, ins.argval)
    f.stack.append(v)


@op("STORE_DEREF")
def _store_deref(vm, s, f, ins):
    c = f.locals[ins.arg]
    v = f.stack.pop()
    if type(c) is Union:
        for g, x in c.alts:
            x.set(v, AND(s.guard, g))
    else:
        c.set(v, TRUE if s.guard is c.birth else s.guard)


@op("LOAD_GLOBAL")
def _load_global(vm, s, f, ins):
    name = ins.argval
    g = f.func.alts[0][1].globals if type(f.func) is Union else f.func.globals
    if name in g:
        v = g[name]
    else:
        b = g.get("__builtins__", builtins)
        if isinstance(b, dict):
            if name not in b:
                raise VMRaise(NameError(f"name '{name}' is not defined"))
            v = b[name]
        else:
            if not hasattr(b, name):
                raise VMRaise(NameError(f"name '{name}' is not defined"))
            v = getattr(b, name)
    if ins.arg & 1:
        f.stack.append(NULL)
    f.stack.append(v)


@op("STORE_GLOBAL")
def _store_global(vm, s, f, ins):
    raise Unsupported("STORE_GLOBAL")


@op("IMPORT_NAME")
def _import_name(vm, s, f, ins):
    fromlist = f.stack.pop()
    level = f.stack.pop()
    m = __import__(ins.argval, f.func.globals, None, fromlist, level)
    f.stack.append(m)


@op("IMPORT_FROM")
def _import_from(vm, s, f, ins):
    f.stack.append(getattr(f.stack[-1], ins.argval))


# ------------------------------------------------------------------------------- jumps


def _branch(vm, s, f, c, target):
    """jump to target where c holds, fall through elsewhere"""
    if c is TRUE:
        f.pc = target
        return JUMPED
    if c is FALSE:
        return None
    gt = AND(s.guard, c)
    gf = AND(s.guard, NOT(c))
    if vm.prune_branches:
        if gt is not FALSE and not vm.feasible(gt):
            gt = FALSE
        elif gf is not FALSE and not vm.feasible(gf):
            gf = FALSE
    if gt is FALSE and gf is FALSE:
        s.guard = FALSE
        return JUMPED
    if gt is FALSE:
        return None
    if gf is FALSE:
        f.pc = target
        return JUMPED
    s2 = s.copy(gf)
    mark_fork(s.guard, [s, s2])
    s2.frames[-1].pc += 1
    s.guard = gt
    f.pc = target
    return [s, s2]


@op("POP_JUMP_IF_TRUE")
def _pjit(vm, s, f, ins):
    return _branch(vm, s, f, truth(f.stack.pop()), f.ci.jt[f.pc])


@op("POP_JUMP_IF_FALSE")
def _pjif(vm, s, f, ins):
    return _branch(vm, s, f, NOT(truth(f.stack.pop())), f.ci.jt[f.pc])


def _is_none(v):
    if type(v) is Union:
        return OR(*[g for g, x in v.alts if x is None])
    return const(v is None)


@op("POP_JUMP_IF_NONE")
def _pjin(vm, s, f, ins):
    return _branch(vm, s, f, _is_none(f.stack.pop()), f.ci.jt[f.pc])


@op("POP_JUMP_IF_NOT_NONE")
def _pjinn(vm, s, f, ins):
    return _branch(vm, s, f, NOT(_is_none(f.stack.pop())), f.ci.jt[f.pc])


@op("JUMP_FORWARD")
def _jf(vm, s, f, ins):
    f.pc = f.ci.jt[f.pc]
    return JUMPED


@op("JUMP_BACKWARD", "JUMP_BACKWARD_NO_INTERRUPT")
def _jb(vm, s, f, ins):
    t = f.ci.jt[f.pc]
    c = f.counts.get(t, 0) + 1
    if c > vm.loop_bound:
        raise Unsupported(f"loop bound {vm.loop_bound} exceeded at {f!r}")
    f.counts[t] = c
    f.pc = t
    if vm.use_solver and not vm.feasible(s.guard):
        s.guard = FALSE
    return JUMPED


# ------------------------------------------------------------------------------- operators


def lift2(vm, s, a, b, fn):
    """apply fn(x, y, guard) over alternatives; native exceptions become guarded raises"""
    if type(a) is not Union and type(b) is not Union:
        try:
            return fn(a, b)
        except VMRaise:
            raise
        except Unsupported:
            raise
        except Exception as e:
            raise VMRaise(e)
    out = []
    cg0 = s.cg
    try:
        for ga, x in alts_of(a):
            for gb, y in alts_of(b):
                g = AND(ga, gb)
                if g is FALSE or AND(s.guard, g) is FALSE:
                    continue
                s.cg = AND(cg0, g)
                try:
                    out.append((g, fn(x, y)))
                except VMRaise as e:
                    vm.raise_under(s, TRUE, e.exc)
                except Unsupported as e:
                    vm.unsupported_alt(s, e)
                except Exception as e:
                    vm.raise_under(s, TRUE, e)
    finally:
        s.cg = cg0
    return mk_union(out)


def lift1(vm, s, a, fn):
    if type(a) is not Union:
        try:
            return fn(a)
        except (VMRaise, Unsupported):
            raise
        except Exception as e:
            raise VMRaise(e)
    out = []
    cg0 = s.cg
    try:
        for ga, x in a.alts:
            if AND(s.guard, ga) is FALSE:
                continue
            s.cg = AND(cg0, ga)
            try:
                out.append((ga, fn(x)))
            except VMRaise as e:
                vm.raise_under(s, TRUE, e.exc)
            except Unsupported as e:
                vm.unsupported_alt(s, e)
            except Exception as e:
                vm.raise_under(s, TRUE, e)
    finally:
        s.cg = cg0
    return mk_union(out)


def binop_atomic(vm, s, opname, a, b):
    ta, tb = type(a), type(b)
    if ta is C.LenSym and tb is int and opname in _CMP:
        r = C.len_compare(opname, a, b)
        if r is not None:
            return sym_bool(r)
    if tb is C.LenSym and ta is int and opname in _CMP:
        r = C.len_compare(_FLIP[opname], b, a)
        if r is not None:
            return sym_bool(r)
    if ta is C.LenSym and tb is C.LenSym and opname in _CMP and len(a.guards[1]) + len(b.guards[1]) <= 16:
        # (long guard lists: the quadratic Boolean count comparison costs more than the arithmetic term it avoids)
        return sym_bool(C.count_cmp(opname, a.guards, b.guards))
    if ta is C.LenSym:
        a = Sym("int", a.e)
        ta = Sym
    if tb is C.LenSym:
        b = Sym("int", b.e)
        tb = Sym
    if ta is Sym or tb is Sym:
        if isinstance(a, VObj) or isinstance(b, VObj):
            if opname == "==":
                return False
            if opname == "!=":
                return True
        return sym_binop(opname, a, b)
    if isinstance(a, VObj) or isinstance(b, VObj):
        return C.binop(vm, s, opname, a, b)
    if ta is tuple and tb is tuple and opname in ("==", "!=") and not (is_concrete(a) and is_concrete(b)):
        if len(a) != len(b):
            return opname == "!="
        e = TRUE
        for x, y in zip(a, b):
            r = lift2(vm, s, x, y, lambda p, q: binop_atomic(vm, s, "==", p, q))
            e = AND(e, truth(r))
        return sym_bool(e if opname == "==" else NOT(e))
    if ta is tuple and tb is tuple and opname == "+":
        return a + b
    fn = _CMP.get(opname) or _ARITH.get(opname)
    if fn is None:
        raise Unsupported(f"binary op {opname}")
    return fn(a, b)


_DUNDER = {"+": "__add__", "-": "__sub__", "*": "__mul__", "==": "__eq__", "!=": "__ne__", "<": "__lt__",
           "<=": "__le__", ">": "__gt__", ">=": "__ge__", "&": "__and__", "|": "__or__"}
_FLIP = {"<": ">", "<=": ">=", ">": "<", ">=": "<=", "==": "==", "!=": "!="}
def _has_dunder(v, name):
    if type(v) is VInst and name in _DUNDER:
        meth = static_lookup(v.cls, _DUNDER[name])
        if meth is not MISSING and meth is not getattr(object, _DUNDER[name], None):
            return meth
    return None


def _dunder_dispatch(vm, s, f, ins, name, a, b):
    """operators on instances of interpreted classes that define the special method (also behind a Union)"""
    if name not in _DUNDER:
        return None
    if type(a) is Union and any(_has_dunder(x, name) for _, x in a.alts):
        a = vm.project(s, a, True)
        if type(a) is Union:
            def k(s2, alt):
                f2 = s2.frames[-1]
                f2.stack.append(alt)
                f2.stack.append(b)
                return _DISPATCH_LOCAL[ins.opname](vm, s2, f2, ins)
            return vm.fork_union(s, a, k)
    meth = _has_dunder(a, name)
    if meth is not None:
        return vm.do_call(s, meth, [a, b], {}, ("push",))
    if name in ("==", "!=") and not isinstance(a, VObj) and type(a) is not Union:
        if type(b) is Union and any(_has_dunder(x, name) for _, x in b.alts):
            b = vm.project(s, b, True)
            if type(b) is Union:
                def k2(s2, alt):
                    f2 = s2.frames[-1]
                    f2.stack.append(a)
                    f2.stack.append(alt)
                    return _DISPATCH_LOCAL[ins.opname](vm, s2, f2, ins)
                return vm.fork_union(s, b, k2)
        meth = _has_dunder(b, name)
        if meth is not None:
            return vm.do_call(s, meth, [b, a], {}, ("push",))
    return None


_DISPATCH_LOCAL = {}
_INPLACE = {"+=": "+", "-=": "-", "*=": "*", "/=": "/", "//=": "//", "%=": "%", "&=": "&", "|=": "|", "^=": "^",
            "<<=": "<<", ">>=": ">>", "**=": "**", "@=": "@"}


@op("BINARY_OP")
def _binary_op(vm, s, f, ins):
    b = f.stack.pop()
    a = f.stack.pop()
    name = ins.argrepr
    inplace = name in _INPLACE
    name = _INPLACE.get(name, name)
    r = _dunder_dispatch(vm, s, f, ins, name, a, b)
    if r is not None:
        return r
    if inplace and isinstance(a, VObj) and not isinstance(a, (VInst,)):
        r = C.inplace(vm, s, name, a, b)
    else:
        r = lift2(vm, s, a, b, lambda x, y: binop_atomic(vm, s, name, x, y))
    f.stack.append(r)


@op("COMPARE_OP")
def _compare_op(vm, s, f, ins):
    b = f.stack.pop()
    a = f.stack.pop()
    name = ins.argval
    r = _dunder_dispatch(vm, s, f, ins, name, a, b)
    if r is not None:
        return r
    if name in ("==", "!="):
        fast = _fast_eq(a, b, False)
        if fast is not None:
            f.stack.append(sym_bool(NOT(fast) if name == "!=" else fast))
            return None
    f.stack.append(lift2(vm, s, a, b, lambda x, y: binop_atomic(vm, s, name, x, y)))


def is_atomic(a, b):
    if a is b:
        return True
    ta, tb = type(a), type(b)
    if ta is Sym or tb is Sym:
        if a is None or b is None or isinstance(a, VObj) or isinstance(b, VObj):
            return False
        raise Unsupported("identity test on symbolic scalar")
    if ta is tb and ta in (int, str, bytes, bool, float):
        return a == b
    if ta is SlotRef and tb is SlotRef:
        return a.lst is b.lst and a.j == b.j
    return False


def _fast_eq(a, b, identity):
    """equality / identity of two Unions by indexing the alternatives (instead of the full product)"""
    if type(a) is not Union or type(b) is not Union or len(a.alts) * len(b.alts) < 64:
        return None
    idx = {}
    for g, x in a.alts:
        t = type(x)
        if t is Sym or (t is tuple and not is_concrete(x)):
            return None
        if isinstance(x, VObj) or identity and t not in (int, str, bytes, bool, float, type(None)):
            k = ("o", id(x))
        else:
            try:
                hash(x)
            except TypeError:
                return None
            k = ("v", t, x)
        idx.setdefault(k, []).append(g)
    terms = []
    for g, y in b.alts:
        t = type(y)
        if t is Sym or (t is tuple and not is_concrete(y)):
            return None
        if isinstance(y, VObj) or identity and t not in (int, str, bytes, bool, float, type(None)):
            k = ("o", id(y))
        else:
            try:
                hash(y)
            except TypeError:
                return None
            k = ("v", t, y)
        gs = idx.get(k)
        if gs:
            terms.append(AND(g, OR(*gs)))
    return OR(*terms)


@op("IS_OP")
def _is_op(vm, s, f, ins):
    b = f.stack.pop()
    a = f.stack.pop()
    fast = _fast_eq(a, b, True)
    if fast is not None:
        f.stack.append(sym_bool(NOT(fast) if ins.arg else fast))
        return None
    r = lift2(vm, s, a, b, is_atomic)
    if ins.arg:
        r = sym_bool(NOT(truth(r)))
    f.stack.append(r)


@op("CONTAINS_OP")
def _contains_op(vm, s, f, ins):
    cont = f.stack.pop()
    item = f.stack.pop()
    r = lift2(vm, s, item, cont, lambda x, c: C.contains(vm, s, c, x))
    if ins.arg:
        r = sym_bool(NOT(truth(r)))
    f.stack.append(r)


@op("UNARY_NOT")
def _unary_not(vm, s, f, ins):
    f.stack[-1] = sym_bool(NOT(truth(f.stack[-1])))


@op("UNARY_NEGATIVE")
def _unary_neg(vm, s, f, ins):
    f.stack[-1] = lift2(vm, s, 0, f.stack[-1], lambda x, y: binop_atomic(vm, s, "-", x, y))


@op("UNARY_INVERT")
def _unary_inv(vm, s, f, ins):
    f.stack[-1] = lift1(vm, s, f.stack[-1], lambda x: ~x if not isinstance(x, (Sym, VObj)) else _unsup("~"))


def _unsup(msg):
    raise Unsupported(msg)


@op("BINARY_SUBSCR")
def _binary_subscr(vm, s, f, ins):
    k = f.stack.pop()
    c = f.stack.pop()
    f.stack.append(lift2(vm, s, c, k, lambda x, y: C.getitem(vm, s, x, y)))


@op("STORE_SUBSCR")
def _store_subscr(vm, s, f, ins):
    k = f.stack.pop()
    c = f.stack.pop()
    v = f.stack.pop()
    for gc, cc in alts_of(c):
        for gk, kk in alts_of(k):
            g = AND(gc, gk)
            if AND(s.guard, g) is FALSE:
                continue
            C.setitem(vm, s, cc, kk, v, AND(s.guard, g))


@op("DELETE_SUBSCR")
def _delete_subscr(vm, s, f, ins):
    k = f.stack.pop()
    c = f.stack.pop()
    for gc, cc in alts_of(c):
        for gk, kk in alts_of(k):
            g = AND(gc, gk)
            if AND(s.guard, g) is FALSE:
                continue
            C.delitem(vm, s, cc, kk, g)


@op("BINARY_SLICE")
def _binary_slice(vm, s, f, ins):
    stop = f.stack.pop()
    start = f.stack.pop()
    c = f.stack.pop()

    def k(x):
        return lift2(vm, s, start, stop, lambda a, b: C.getitem(vm, s, x, slice(a, b)))
    f.stack.append(lift1(vm, s, c, k))


@op("BUILD_SLICE")
def _build_slice(vm, s, f, ins):
    n = ins.arg
    parts = f.stack[-n:]
    del f.stack[-n:]
    if not all(is_concrete(p) for p in parts):
        raise Unsupported("symbolic slice")
    f.stack.append(slice(*parts))


# ------------------------------------------------------------------------------- building containers


@op("BUILD_TUPLE")
def _build_tuple(vm, s, f, ins):
    n = ins.arg
    if n:
        t = tuple(f.stack[-n:])
        del f.stack[-n:]
    else:
        t = ()
    f.stack.append(t)


@op("BUILD_LIST")
def _build_list(vm, s, f, ins):
    n = ins.arg
    items = f.stack[-n:] if n else []
    if n:
        del f.stack[-n:]
    f.stack.append(VList(items, birth=s.guard))


@op("BUILD_SET")
def _build_set(vm, s, f, ins):
    n = ins.arg
    items = f.stack[-n:] if n else []
    if n:
        del f.stack[-n:]
    st = VSet(birth=s.guard)
    for x in items:
        C.set_add(vm, s, st, x, TRUE)
    f.stack.append(st)


@op("BUILD_MAP")
def _build_map(vm, s, f, ins):
    n = ins.arg
    items = f.stack[-2 * n:] if n else []
    if n:
        del f.stack[-2 * n:]
    d = VDict(birth=s.guard)
    for i in range(n):
        C.setitem(vm, s, d, items[2 * i], items[2 * i + 1], TRUE)
    f.stack.append(d)


@op("BUILD_CONST_KEY_MAP")
def _build_ckm(vm, s, f, ins):
    keys = f.stack.pop()
    n = ins.arg
    vals = f.stack[-n:]
    del f.stack[-n:]
    d = VDict(birth=s.guard)
    for k, v in zip(keys, vals):
        d.slots[k] = [TRUE, v]
    f.stack.append(d)


@op("BUILD_STRING")
def _build_string(vm, s, f, ins):
    n = ins.arg
    parts = f.stack[-n:]
    del f.stack[-n:]
    if all(type(p) is str for p in parts):
        f.stack.append("".join(parts))
    else:
        acc = ""
        for p in parts:
            acc = lift2(vm, s, acc, p, lambda x, y: x + (y if type(y) is str else "<?>"))
        f.stack.append(acc)


@op("FORMAT_VALUE")
def _format_value(vm, s, f, ins):
    flags = ins.arg
    spec = f.stack.pop() if flags & 4 else ""
    v = f.stack.pop()
    conv = flags & 3

    def fmt(x):
        if type(x) is Sym or isinstance(x, VObj) or not is_concrete(x) or type(spec) is not str:
            return "<?>"  # formatting of symbolic values is stubbed (messages/logging only)
        if conv == 1:
            x = str(x)
        elif conv == 2:
            x = repr(x)
        elif conv == 3:
            x = ascii(x)
        return format(x, spec)
    f.stack.append(lift1(vm, s, v, fmt))


@op("LIST_APPEND")
def _list_append(vm, s, f, ins):
    v = f.stack.pop()
    C.list_append(vm, s, f.stack[-ins.arg], v, s.guard)


@op("SET_ADD")
def _set_add(vm, s, f, ins):
    v = f.stack.pop()
    C.set_add(vm, s, f.stack[-ins.arg], v, s.guard)


@op("MAP_ADD")
def _map_add(vm, s, f, ins):
    v = f.stack.pop()
    k = f.stack.pop()
    C.setitem(vm, s, f.stack[-ins.arg], k, v, s.guard)


@op("LIST_EXTEND")
def _list_extend(vm, s, f, ins):
    it = f.stack.pop()
    C.list_extend(vm, s, f.stack[-ins.arg], it, s.guard)


@op("SET_UPDATE")
def _set_update(vm, s, f, ins):
    it = f.stack.pop()
    C.set_update(vm, s, f.stack[-ins.arg], it, s.guard)


@op("DICT_UPDATE", "DICT_MERGE")
def _dict_update(vm, s, f, ins):
    it = f.stack.pop()
    C.dict_update(vm, s, f.stack[-ins.arg], it, s.guard)


@op("UNPACK_SEQUENCE")
def _unpack_sequence(vm, s, f, ins):
    n = ins.arg
    v = f.stack.pop()

    def parts(x):
        if type(x) is tuple:
            seq = x
        elif type(x) is VList and x.is_plain():
            seq = tuple(v for _, v in x.slots)
        elif isinstance(x, (str, bytes, list)):
            seq = tuple(vm.wrap_native(y) for y in x)
        else:
            raise Unsupported(f"unpack of {x!r}")
        if len(seq) != n:
            raise VMRaise(ValueError(f"not enough/too many values to unpack (expected {n}, got {len(seq)})"))
        return seq
    if type(v) is Union:
        v = vm.project(s, v)
    if type(v) is Union:
        cols = [[] for _ in range(n)]
        for g, x in v.alts:
            try:
                seq = parts(x)
            except VMRaise as e:
                vm.raise_under(s, g, e.exc)
                continue
            except Unsupported:
                if vm.feasible(AND(s.guard, s.cg, g)):
                    raise
                continue
            for i in range(n):
                cols[i].append((g, seq[i]))
        seq = [mk_union(c) for c in cols]
    else:
        seq = parts(v)
    for x in reversed(seq):
        f.stack.append(x)


@op("UNPACK_EX")
def _unpack_ex(vm, s, f, ins):
    before = ins.arg & 0xFF
    after = ins.arg >> 8
    v = f.stack.pop()
    if type(v) is Union:
        v = vm.project(s, v)

    def parts(x):
        if type(x) is tuple:
            seq = list(x)
        elif type(x) is VList and x.is_plain():
            seq = [v for _, v in x.slots]
        else:
            raise Unsupported(f"unpack_ex of {x!r}")
        if len(seq) < before + after:
            raise VMRaise(ValueError("not enough values to unpack"))
        mid = VList(seq[before:len(seq) - after], birth=s.guard)
        return seq[:before] + [mid] + seq[len(seq) - after:]
    n = before + 1 + after
    if type(v) is Union:
        cols = [[] for _ in range(n)]
        for g, x in v.alts:
            seq = parts(x)
            for i in range(n):
                cols[i].append((g, seq[i]))
        seq = [mk_union(c) for c in cols]
    else:
        seq = parts(v)
    for x in reversed(seq):
        f.stack.append(x)


# ------------------------------------------------------------------------------- iteration


@op("GET_ITER")
def _get_iter(vm, s, f, ins):
    f.stack[-1] = C.get_iter(vm, s, f.stack[-1])


@op("GET_YIELD_FROM_ITER")
def _gyfi(vm, s, f, ins):
    v = f.stack[-1]
    if type(v) is not VGen:
        f.stack[-1] = C.get_iter(vm, s, v)


@op("FOR_ITER")
def _for_iter(vm, s, f, ins):
    it = f.stack[-1]
    if type(it) is Union:
        it = vm.project(s, it)
        if type(it) is Union and all(type(x) is VIter for _, x in it.alts):
            it = VIter(C.iter_items(vm, s, it), 0, None)
            f.stack[-1] = it
        else:
            it = vm.project(s, it, True)
        if type(it) is Union:
            def k(s2, alt):
                s2.frames[-1].stack[-1] = alt
                return _for_iter(vm, s2, s2.frames[-1], ins)
            return vm.fork_union(s, it, k)
        f.stack[-1] = it
    if type(it) is VGen:
        return vm.resume_gen(s, it, None, "for")
    if type(it) is not VIter:
        raise Unsupported(f"FOR_ITER over {it!r}")
    if it.i >= len(it.seq):
        f.stack.pop()
        f.pc = f.ci.jt[f.pc] + 1
        return JUMPED
    p, v = it.seq[it.i]
    nxt = it.next()
    if p is TRUE:
        f.stack[-1] = nxt
        f.stack.append(v)
        return None
    gp = AND(s.guard, p)
    gn = AND(s.guard, NOT(p))
    out = []
    g_before = s.guard
    if gn is not FALSE:
        s2 = s.copy(gn) if gp is not FALSE else s
        f2 = s2.frames[-1]
        f2.stack[-1] = nxt
        h = f2.ci.for_header[f2.pc]
        f2.counts[h] = f2.counts.get(h, 0) + 1
        s2.guard = gn
        out.append(s2)
    if gp is not FALSE:
        if gn is FALSE:
            # keep the guard unchanged (the skip side is infeasible)
            pass
        else:
            s.guard = gp
        f.stack[-1] = nxt
        f.stack.append(v)
        f.pc += 1
        out.append(s)
    if not out:
        s.guard = FALSE
        return JUMPED
    if len(out) == 2:
        mark_fork(g_before, out)
    return out


@op("SEND")
def _send(vm, s, f, ins):
    v = f.stack[-1]
    recv = f.stack[-2]
    if type(recv) is Union:
        recv = vm.project(s, recv, True)
        if type(recv) is Union:
            def k(s2, alt):
                s2.frames[-1].stack[-2] = alt
                return _send(vm, s2, s2.frames[-1], ins)
            return vm.fork_union(s, recv, k)
        f.stack[-2] = recv
    if type(recv) is VGen:
        return vm.resume_gen(s, recv, v, "send")
    if type(recv) is VIter:
        if recv.i >= len(recv.seq):
            f.stack[-1] = None
            f.pc = f.ci.jt[f.pc]
            return JUMPED
        p, x = recv.seq[recv.i]
        if p is not TRUE:
            raise Unsupported("yield from over guarded sequence")
        f.stack[-2] = recv.next()
        f.stack[-1] = x
        return None
    raise Unsupported(f"SEND to {recv!r}")


@op("RETURN_GENERATOR")
def _return_generator(vm, s, f, ins):
    s.frames.pop()
    f.pc += 1
    gen = VGen(f)
    gen.birth = s.guard
    on_return = f.on_return
    f.on_return = ("push",)
    vm.landed = True
    if not s.frames:
        s.status = "done"
        s.result = gen
        return JUMPED
    vm.deliver(s, gen, on_return)
    return JUMPED


@op("YIELD_VALUE")
def _yield_value(vm, s, f, ins):
    v = f.stack.pop()
    if f.resume_kind is None:
        raise Unsupported("yield in a frame that is not being consumed")
    return vm.gen_yield(s, f, v)


@op("CALL_INTRINSIC_1")
def _call_intrinsic_1(vm, s, f, ins):
    a = ins.arg
    v = f.stack.pop()
    if a == 3:  # INTRINSIC_STOPITERATION_ERROR
        if isinstance(v, StopIteration):
            v = RuntimeError("generator raised StopIteration")
        f.stack.append(v)
    elif a == 6:  # LIST_TO_TUPLE
        if type(v) is VList and v.is_plain():
            f.stack.append(tuple(x for _, x in v.slots))
        else:
            raise Unsupported("list_to_tuple of guarded list")
    elif a == 5:  # UNARY_POSITIVE
        f.stack.append(v)
    else:
        raise Unsupported(f"intrinsic {a}")


# ------------------------------------------------------------------------------- exceptions


@op("PUSH_EXC_INFO")
def _push_exc_info(vm, s, f, ins):
    exc = f.stack.pop()
    f.stack.append(s.cur_exc)
    f.stack.append(exc)
    s.cur_exc = exc


@op("POP_EXCEPT")
def _pop_except(vm, s, f, ins):
    s.cur_exc = f.stack.pop()


@op("CHECK_EXC_MATCH")
def _check_exc_match(vm, s, f, ins):
    typ = f.stack.pop()
    exc = f.stack[-1]
    if type(typ) is Union or not is_concrete(typ):
        raise Unsupported("symbolic exception class in except clause")
    f.stack.append(lift1(vm, s, exc, lambda e: isinstance(e, typ)))


@op("RERAISE")
def _reraise(vm, s, f, ins):
    exc = f.stack.pop()
    raise VMRaise(exc)


@op("RAISE_VARARGS")
def _raise_varargs(vm, s, f, ins):
    n = ins.arg
    if n == 0:
        if s.cur_exc is None:
            raise VMRaise(RuntimeError("No active exception to reraise"))
        raise VMRaise(s.cur_exc)
    cause = f.stack.pop() if n == 2 else None
    exc = f.stack.pop()
    raise VMRaise(exc)


@op("WITH_EXCEPT_START")
def _with_except_start(vm, s, f, ins):
    exit_fn = f.stack[-4]
    exc = f.stack[-1]
    if type(exc) is Union:
        def k(s2, alt):
            s2.frames[-1].stack[-1] = alt
            return _with_except_start(vm, s2, s2.frames[-1], ins)
        return vm.fork_union(s, exc, k)
    return vm.do_call(s, exit_fn, [type(exc), exc, None], {}, ("push",))


@op("BEFORE_WITH")
def _before_with(vm, s, f, ins):
    mgr = f.stack.pop()
    if type(mgr) is Union:
        mgr = vm.project(s, mgr, True)
        if type(mgr) is Union:
            def k(s2, alt):
                s2.frames[-1].stack.append(alt)
                return _before_with(vm, s2, s2.frames[-1], ins)
            return vm.fork_union(s, mgr, k)
    ex = load_attr_value(vm, s, mgr, "__exit__")
    en = load_attr_value(vm, s, mgr, "__enter__")
    f.stack.append(ex)
    return vm.do_call(s, en, [], {}, ("push",))


# ------------------------------------------------------------------------------- attributes


class _NeedCall(Exception):
    def __init__(self, fn, args):
        self.fn = fn
        self.args = args


def inst_lookup(vm, s, inst, name, for_method=False):
    """returns ('value', v) | ('method', func) | raises _NeedCall for properties"""
    cls = inst.cls
    ca = static_lookup(cls, name)
    if isinstance(ca, property):
        if ca.fget is None:
            raise VMRaise(AttributeError(f"unreadable attribute {name}"))
        fg = ca.fget
        if isinstance(fg, types.FunctionType) and vm.is_encoded_module(fg.__module__):
            raise _NeedCall(fg, [inst])
        m = vm.model_for(fg)
        if m is not None:
            raise _NeedCall(fg, [inst])
        # foreign property (e.g. threading.Thread.daemon/name): fall back to the field of that name
        v = inst.fields.get(name, UNDEF)
        if v is UNDEF:
            v = inst.fields.get("_" + name, UNDEF)
        if v is UNDEF:
            raise Unsupported(f"foreign property {cls.__name__}.{name} without model")
        return "value", v
    v = inst.fields.get(name, UNDEF)
    if v is not UNDEF:
        if type(v) is Union:
            v = vm.project(s, v)
            if type(v) is Union and any(x is UNDEF for _, x in v.alts):
                ub = OR(*[g for g, x in v.alts if x is UNDEF])
                if not vm.feasible(AND(s.guard, s.cg, ub)):
                    v = mk_union([(g, x) for g, x in v.alts if x is not UNDEF])
        if type(v) is Union:
            bad = [g for g, x in v.alts if x is UNDEF]
            if bad:
                if ca is MISSING:
                    vm.raise_under(s, OR(*bad), AttributeError(f"'{cls.__name__}' object has no attribute '{name}'"))
                    v = mk_union([(g, x) for g, x in v.alts if x is not UNDEF])
                else:
                    cv = _class_attr_value(vm, inst, ca)
                    v = mk_union([(g, (cv if x is UNDEF else x)) for g, x in v.alts])
        if v is not UNDEF:
            return "value", v
    if ca is MISSING:
        if name == "__class__":
            return "value", cls
        if name == "__dict__":
            raise Unsupported("__dict__ of VM instance")
        ga = static_lookup(cls, "__getattr__")
        if ga is not MISSING:
            raise _NeedCall(ga, [inst, name])
        raise VMRaise(AttributeError(f"'{cls.__name__}' object has no attribute '{name}'"))
    if isinstance(ca, (types.FunctionType, VFunc)) or (callable(ca) and vm.model_for(ca) is not None
                                                       and not isinstance(ca, type)):
        return "method", ca
    if type(ca).__name__ in ("method_descriptor", "wrapper_descriptor", "builtin_function_or_method"):
        return "method", ca
    return "value", _class_attr_value(vm, inst, ca)


def _class_attr_value(vm, inst, ca):
    if isinstance(ca, staticmethod):
        return ca.__func__
    if isinstance(ca, classmethod):
        return VMethod(ca.__func__, inst.cls)
    if isinstance(ca, (types.FunctionType, VFunc)):
        return VMethod(ca, inst)
    return vm.wrap_native(ca)


def load_attr_atomic(vm, s, obj, name):
    """attribute of a non-Union value; returns ('value', v) or ('method', func); may raise _NeedCall"""
    t = type(obj)
    if t is VInst:
        return inst_lookup(vm, s, obj, name)
    if t is VSuper:
        mro = obj.obj.cls.__mro__ if type(obj.obj) is VInst else obj.obj.__mro__
        i = mro.index(obj.cls)
        for k in mro[i + 1:]:
            if name in k.__dict__:
                ca = k.__dict__[name]
                if isinstance(ca, property):
                    raise _NeedCall(ca.fget, [obj.obj])
                if isinstance(ca, staticmethod):
                    return "value", ca.__func__
                if isinstance(ca, classmethod):
                    return "value", VMethod(ca.__func__, obj.obj if isinstance(obj.obj, type) else obj.obj.cls)
                if callable(ca):
                    return "value", VMethod(ca, obj.obj)
                return "value", vm.wrap_native(ca)
        raise VMRaise(AttributeError(f"'super' object has no attribute '{name}'"))
    if t in (VList, VDict, VSet, VModel, VGen, VIter):
        if t is VModel:
            r = C.model_getattr(vm, s, obj, name)
            if r is not MISSING:
                return "value", r
        return "value", VBuiltinMethod(obj, name)
    if t is VFunc:
        if name == "__name__":
            return "value", obj.name
        if name == "__qualname__":
            return "value", obj.qualname
        if obj.pyfunc is not None and hasattr(obj.pyfunc, name):
            return "value", vm.wrap_native(getattr(obj.pyfunc, name))
        raise VMRaise(AttributeError(name))
    if t is VMethod:
        if name == "__self__":
            return "value", obj.self
        if name == "__func__":
            return "value", obj.func
        raise VMRaise(AttributeError(name))
    if t is Sym or obj is NULL or obj is UNDEF:
        raise Unsupported(f"attribute {name} of {obj!r}")
    if t is tuple and not is_concrete(obj):
        raise Unsupported(f"attribute {name} of symbolic tuple")
    # concrete native object (module, class, instance of a native value class, ...)
    try:
        if isinstance(obj, type):
            ca = static_lookup(obj, name)
            if isinstance(ca, (staticmethod,)):
                return "value", ca.__func__
            if isinstance(ca, classmethod):
                return "value", VMethod(ca.__func__, obj) if vm.is_encoded_module(
                    getattr(ca.__func__, "__module__", None)) else getattr(obj, name)
            if isinstance(ca, (types.FunctionType, property)):
                return "value", ca
        v = getattr(obj, name)
    except Exception as e:
        raise VMRaise(e)
    return "value", vm.wrap_native(v)


def load_attr_value(vm, s, obj, name):
    """attribute as a first-class value (bound method objects are materialised); no property calls"""
    if type(obj) is Union:
        return mk_union([(g, load_attr_value(vm, s, x, name)) for g, x in obj.alts])
    try:
        kind, v = load_attr_atomic(vm, s, obj, name)
    except _NeedCall:
        raise Unsupported(f"property {name} in value context")
    if kind == "method":
        return VMethod(v, obj)
    return v


@op("LOAD_ATTR")
def _load_attr(vm, s, f, ins):
    obj = f.stack.pop()
    name = ins.argval
    method = ins.arg & 1
    if type(obj) is Union:
        obj = vm.project(s, obj)
    if type(obj) is Union:
        # try to resolve without forking
        res = []
        ok = True
        cg0 = s.cg
        try:
            for g, x in obj.alts:
                s.cg = AND(cg0, g)
                if AND(s.guard, s.cg) is FALSE:
                    continue
                try:
                    kind, v = load_attr_atomic(vm, s, x, name)
                except _NeedCall:
                    ok = False
                    break
                except VMRaise as e:
                    vm.raise_under(s, TRUE, e.exc)
                    continue
                except Unsupported as e:
                    vm.unsupported_alt(s, e)
                    continue
                res.append((g, VMethod(v, x) if kind == "method" else v))
        finally:
            s.cg = cg0
        if ok:
            v = mk_union(res)
            if method:
                f.stack.append(NULL)
            f.stack.append(v)
            return None

        def k(s2, alt):
            s2.frames[-1].stack.append(alt)
            return _load_attr(vm, s2, s2.frames[-1], ins)
        return vm.fork_union(s, obj, k)
    if vm.sched is not None and type(obj) is VInst:
        if (obj.cls.__name__, name) in vm.sched.racy:
            f.stack.append(obj)  # (restored anyway if we park)
            vm.sched.visible(vm, s, ("field", name))
            f.stack.pop()
        vm.note_access(s, obj, name, False)
    try:
        kind, v = load_attr_atomic(vm, s, obj, name)
    except _NeedCall as nc:
        if method:
            f.stack.append(NULL)
        return vm.do_call(s, nc.fn, nc.args, {}, ("push",))
    if kind == "method":
        if method:
            f.stack.append(v)
            f.stack.append(obj)
        else:
            f.stack.append(VMethod(v, obj))
    else:
        if method:
            f.stack.append(NULL)
        f.stack.append(v)
    return None


@op("LOAD_METHOD")
def _load_method(vm, s, f, ins):
    raise Unsupported("LOAD_METHOD (not a 3.12 opcode)")


@op("STORE_ATTR")
def _store_attr(vm, s, f, ins):
    obj = f.stack.pop()
    v = f.stack.pop()
    name = ins.argval
    if type(obj) is Union:
        obj = vm.project(s, obj)
    if vm.sched is not None and type(obj) is VInst and (obj.cls.__name__, name) in vm.sched.racy:
        vm.sched.visible(vm, s, ("field", name))
    for g, x in alts_of(obj):
        gg = AND(s.guard, g)
        if gg is FALSE:
            continue
        if type(x) is VInst:
            ca = static_lookup(x.cls, name)
            if isinstance(ca, property) and ca.fset is not None and isinstance(ca.fset, types.FunctionType) \
                    and vm.is_encoded_module(ca.fset.__module__):
                if type(obj) is Union:
                    raise Unsupported("property setter on merged receiver")
                return vm.do_call(s, ca.fset, [x, v], {}, ("discard",))
            vm.note_access(s, x, name, True)
            x.set(name, v, TRUE if gg is x.birth else gg)
        elif type(x) is VModel:
            x.set(name, v, TRUE if gg is x.birth else gg)
        elif x is None:
            vm.raise_under(s, g, AttributeError(f"'NoneType' object has no attribute '{name}'"))
        else:
            raise Unsupported(f"STORE_ATTR on {x!r}")
    return None


@op("DELETE_ATTR")
def _delete_attr(vm, s, f, ins):
    obj = f.stack.pop()
    if type(obj) is VInst:
        obj.set(ins.argval, UNDEF, s.guard)
        return None
    raise Unsupported("DELETE_ATTR")


@op("LOAD_SUPER_ATTR")
def _load_super_attr(vm, s, f, ins):
    self_ = f.stack.pop()
    cls = f.stack.pop()
    glob_super = f.stack.pop()
    name = ins.argval
    method = ins.arg & 1
    sup = VSuper(cls, self_)
    if type(self_) is Union:
        raise Unsupported("super() on merged receiver")
    try:
        kind, v = load_attr_atomic(vm, s, sup, name)
    except _NeedCall as nc:
        if method:
            f.stack.append(NULL)
        return vm.do_call(s, nc.fn, nc.args, {}, ("push",))
    if method:
        if type(v) is VMethod:
            f.stack.append(v.func)
            f.stack.append(v.self)
        else:
            f.stack.append(NULL)
            f.stack.append(v)
    else:
        f.stack.append(v)
    return None


# ------------------------------------------------------------------------------- calls / functions


@op("KW_NAMES")
def _kw_names(vm, s, f, ins):
    f.kwnames = ins.argval


@op("CALL")
def _call(vm, s, f, ins):
    n = ins.arg
    st = f.stack
    args = st[len(st) - n:] if n else []
    if n:
        del st[len(st) - n:]
    b = st.pop()
    a = st.pop()
    if a is NULL:
        fn = b
    else:
        fn = a
        args = [b] + args
    kwargs = {}
    if f.kwnames:
        k = len(f.kwnames)
        kwargs = dict(zip(f.kwnames, args[len(args) - k:]))
        args = args[:len(args) - k]
        f.kwnames = None
    return vm.do_call(s, fn, args, kwargs, ("push",))


@op("CALL_FUNCTION_EX")
def _call_function_ex(vm, s, f, ins):
    kwargs = {}
    if ins.arg & 1:
        kw = f.stack.pop()
        if type(kw) is VDict:
            for k, (p, v) in kw.slots.items():
                if p is not TRUE:
                    raise Unsupported("**kwargs with guarded entries")
                kwargs[k] = v
        elif isinstance(kw, dict):
            kwargs = {k: vm.wrap_native(v) for k, v in kw.items()}
        else:
            raise Unsupported(f"**{kw!r}")
    a = f.stack.pop()
    if type(a) is tuple:
        args = list(a)
    elif type(a) is VList and a.is_plain():
        args = [v for _, v in a.slots]
    else:
        raise Unsupported(f"*{a!r}")
    fn = f.stack.pop()
    nul = f.stack.pop()
    return vm.do_call(s, fn, args, kwargs, ("push",))


@op("MAKE_FUNCTION")
def _make_function(vm, s, f, ins):
    code = f.stack.pop()
    flags = ins.arg
    closure = ()
    if flags & 8:
        closure = f.stack.pop()
    if flags & 4:
        f.stack.pop()
    kwdefaults = None
    if flags & 2:
        kd = f.stack.pop()
        kwdefaults = {k: v for k, (p, v) in kd.slots.items()} if type(kd) is VDict else dict(kd)
    defaults = ()
    if flags & 1:
        defaults = f.stack.pop()
    vf = VFunc(code, f.func.alts[0][1].globals if type(f.func) is Union else f.func.globals, defaults, kwdefaults,
               closure)
    vf.birth = s.guard
    f.stack.append(vf)


@op("LOAD_BUILD_CLASS")
def _lbc(vm, s, f, ins):
    raise Unsupported("class definition inside interpreted code")


@op("LOAD_ASSERTION_ERROR")
def _lae(vm, s, f, ins):
    f.stack.append(AssertionError)


@op("GET_LEN")
def _get_len(vm, s, f, ins):
    f.stack.append(C.length(vm, s, f.stack[-1]))


_DISPATCH_LOCAL["COMPARE_OP"] = _compare_op
_DISPATCH_LOCAL["BINARY_OP"] = _binary_op
