"""Interpreted stand-ins for C builtins that consume VM iterables lazily (run inside the VM)."""


def p_any(it):
    for x in it:
        if x:
            return True
    return False


def p_all(it):
    for x in it:
        if not x:
            return False
    return True


def p_list(it):
    r = []
    for x in it:
        r.append(x)
    return r


def p_tuple(it):
    r = []
    for x in it:
        r.append(x)
    return tuple(r)


def p_set(it):
    r = set()
    for x in it:
        r.add(x)
    return r


def p_enumerate(it, start):
    r = []
    i = start
    for x in it:
        r.append((i, x))
        i += 1
    return r
