"""Guarded container semantics (list/deque, dict/defaultdict, set) of the symbolic VM."""
from __future__ import annotations

import z3

from .bexp import B, TRUE, FALSE, AND, OR, NOT, IFF, const, to_z3, atom, compact
from .values import (Sym, Union, VObj, VInst, VList, VDict, VSet, VCell, VFunc, VMethod, VBuiltinMethod, VIter,
                     VGen, VSuper, VModel, SlotRef, NULL, UNDEF, Unsupported, merge, mk_union, alts_of, truth,
                     sym_bool, is_concrete)

from .values import MISSING  # noqa: E402


def _vmraise(exc):
    from .vm import VMRaise
    return VMRaise(exc)


def wguard(s, obj, g=TRUE):
    """effective write guard for a write by state s (restricted by g) to heap object obj"""
    gg = AND(s.guard, g, s.cg)
    if gg is obj.birth:
        return TRUE
    return compact(gg)


def has_sym(k):
    t = type(k)
    if t is Sym:
        return True
    if t is tuple:
        return any(has_sym(x) for x in k)
    if t is Union:
        return any(has_sym(x) for _, x in k.alts)
    return False


def key_alts(k):
    """expand a key into [(guard, key)] where key contains no Union"""
    t = type(k)
    if t is Union:
        out = []
        for g, x in k.alts:
            for g2, x2 in key_alts(x):
                gg = AND(g, g2)
                if gg is not FALSE:
                    out.append((gg, x2))
        return out
    if t is tuple and any(type(x) in (Union, tuple) for x in k):
        outs = [(TRUE, ())]
        for x in k:
            nxt = []
            for g, pre in outs:
                for g2, x2 in key_alts(x):
                    gg = AND(g, g2)
                    if gg is not FALSE:
                        nxt.append((gg, pre + (x2,)))
            outs = nxt
        return outs
    return [(TRUE, k)]


def eq_values(vm, s, a, b) -> B:
    from .opcodes import lift2, binop_atomic
    r = lift2(vm, s, a, b, lambda x, y: binop_atomic(vm, s, "==", x, y))
    if r is UNDEF:
        return FALSE   # no alternative of a/b is consistent with the current guard
    return truth(r)


# ------------------------------------------------------------------------------- positions in lists


def nth_present(lst: VList, i: int, reverse=False):
    """[(cond, j)]: slot j is the i-th present slot (from the front, or from the back)"""
    cnt = [TRUE] + [FALSE] * i
    out = []
    idxs = range(len(lst.slots) - 1, -1, -1) if reverse else range(len(lst.slots))
    for j in idxs:
        p = lst.slots[j][0]
        c = AND(cnt[i], p)
        if c is not FALSE:
            out.append((c, j))
        if p is TRUE:
            cnt = [FALSE] + cnt[:-1]
        elif p is not FALSE:
            np_ = NOT(p)
            new = []
            for c_ in range(i + 1):
                stay = AND(cnt[c_], np_)
                inc = AND(cnt[c_ - 1], p) if c_ > 0 else FALSE
                new.append(compact(OR(stay, inc)))
            cnt = new
    return out


def index_conds(vm, s, lst: VList, k):
    if type(k) is SlotRef:
        if k.lst is lst and all(a is b[0] for a, b in zip(k.before, [sl for sl in lst.slots[:k.j] if sl[0] is not FALSE])) \
                and len(k.before) == sum(1 for sl in lst.slots[:k.j] if sl[0] is not FALSE):
            return [(lst.slots[k.j][0], k.j)]
        # the index was produced for another list (or the list changed since): use it as a position
        out = []
        mine = []
        for j, sl in enumerate(lst.slots):
            if sl[0] is FALSE:
                continue
            c = AND(sl[0], count_eq(mine, list(k.before)))
            if c is not FALSE:
                out.append((c, j))
            mine.append(sl[0])
        return out
    if type(k) is bool or type(k) is not int:
        raise Unsupported(f"list index {k!r}")
    if k >= 0:
        return nth_present(lst, k)
    return nth_present(lst, -k - 1, reverse=True)


def count_cmp(opname, a, b):
    """compare two guarded counts (n_true, guards) structurally; returns B"""
    (na, ga), (nb, gb) = a, b
    n = max(len(ga), len(gb))
    da, db = _dist(ga, len(ga)), _dist(gb, len(gb))
    terms = []
    for c in range(len(ga) + 1):
        for d in range(len(gb) + 1):
            x, y = c + na, d + nb
            ok = {"<": x < y, "<=": x <= y, ">": x > y, ">=": x >= y, "==": x == y, "!=": x != y}[opname]
            if ok:
                terms.append(AND(da[c], db[d]))
    return OR(*terms)


def _dist(gs, n):
    d = [TRUE] + [FALSE] * n
    for p in gs:
        p = compact(p)
        nd = []
        for c in range(n + 1):
            stay = AND(d[c], NOT(p))
            inc = AND(d[c - 1], p) if c > 0 else FALSE
            nd.append(compact(OR(stay, inc)))
        d = nd
    return d


def count_eq(ga, gb) -> B:
    """the number of true guards in ga equals the number of true guards in gb"""
    n = max(len(ga), len(gb))

    def dist(gs):
        d = [TRUE] + [FALSE] * n
        for p in gs:
            p = compact(p)
            nd = []
            for c in range(n + 1):
                stay = AND(d[c], NOT(p))
                inc = AND(d[c - 1], p) if c > 0 else FALSE
                nd.append(compact(OR(stay, inc)))
            d = nd
        return d
    da, db = dist(ga), dist(gb)
    return OR(*[AND(da[c], db[c]) for c in range(n + 1)])


class LenSym(Sym):
    """symbolic length that remembers the presence guards (comparisons keep Boolean structure);
    the arithmetic term is only built when something really needs it"""
    __slots__ = ("guards", "_lazy")

    def __init__(self, n_true, rest):
        self.sort = "int"
        self.guards = (n_true, tuple(rest))
        self._lazy = None

    @property
    def e(self):
        if self._lazy is None:
            n_true, rest = self.guards
            self._lazy = z3.Sum([z3.If(to_z3(p), 1, 0) for p in rest]) + n_true
        return self._lazy


def length(vm, s, c):
    t = type(c)
    if t is Union:
        from .opcodes import lift1
        return lift1(vm, s, c, lambda x: length(vm, s, x))
    if t is VList:
        gs = [p for p, _ in c.slots if p is not FALSE]
    elif t is VDict:
        if c.assoc:
            raise Unsupported("len of dict with symbolic keys")
        gs = [p for p, _ in c.slots.values() if p is not FALSE]
    elif t is VSet:
        gs = [p for p in c.slots.values() if p is not FALSE]
    elif isinstance(c, VObj) or t is Sym:
        raise Unsupported(f"len of {c!r}")
    elif t is tuple:
        return len(c)
    else:
        try:
            return len(c)
        except Exception as e:
            raise _vmraise(e)
    n_true = sum(1 for p in gs if p is TRUE)
    rest = [p for p in gs if p is not TRUE]
    if not rest:
        return n_true
    return LenSym(n_true, rest)


def len_compare(opname, ls: LenSym, k: int):
    """structure-preserving comparison of a guarded length with a small constant; None if not applicable"""
    n_true, rest = ls.guards
    k = k - n_true

    def at_least(m):
        if m <= 0:
            return TRUE
        if m > len(rest):
            return FALSE
        if m == 1:
            return OR(*rest)
        if m == len(rest):
            return AND(*rest)
        cnt = [TRUE] + [FALSE] * m
        for p in rest:
            new = [cnt[0]]
            for c in range(1, m + 1):
                new.append(OR(cnt[c], AND(cnt[c - 1], p)))
            cnt = new
        return cnt[m]
    if opname == "==":
        return AND(at_least(k), NOT(at_least(k + 1)))
    if opname == "!=":
        return NOT(AND(at_least(k), NOT(at_least(k + 1))))
    if opname == ">":
        return at_least(k + 1)
    if opname == ">=":
        return at_least(k)
    if opname == "<":
        return NOT(at_least(k))
    if opname == "<=":
        return NOT(at_least(k + 1))
    return None


# ------------------------------------------------------------------------------- get / set / del item


def _assoc_lookup(vm, s, d: VDict, k):
    """value for key k considering concrete slots and symbolic association entries"""
    alts = []
    remaining = TRUE
    for g, kk, v in reversed(d.assoc):
        m = AND(remaining, g, eq_values(vm, s, kk, k))
        if m is not FALSE:
            alts.append((m, v))
            remaining = AND(remaining, NOT(m))
    if has_sym(k):
        for ck, (p, v) in d.slots.items():
            m = AND(remaining, p, eq_values(vm, s, ck, k))
            if m is not FALSE:
                alts.append((m, v))
                remaining = AND(remaining, NOT(m))
    else:
        try:
            slot = d.slots.get(k)
        except TypeError as e:
            raise _vmraise(e)
        if slot is not None:
            m = AND(remaining, slot[0])
            if m is not FALSE:
                alts.append((m, slot[1]))
                remaining = AND(remaining, NOT(m))
    return alts, remaining


def dict_get(vm, s, d: VDict, k, default=MISSING):
    """returns (value, missing_guard)"""
    if d.assoc or has_sym(k):
        alts, remaining = _assoc_lookup(vm, s, d, k)
        return alts, remaining
    try:
        slot = d.slots.get(k)
    except TypeError as e:
        raise _vmraise(e)
    if slot is None:
        return [], TRUE
    return [(slot[0], slot[1])], NOT(slot[0])


def _needs_expansion(k):
    return type(k) is tuple and any(type(x) in (Union, tuple) for x in k) and len(key_alts(k)) != 1


def lift_key(vm, s, k, fn):
    """apply fn(concrete-ish key) over the alternatives of a key that contains Unions"""
    out = []
    cg0 = s.cg
    from .vm import VMRaise
    try:
        for g, kk in key_alts(k):
            if AND(s.guard, g) is FALSE:
                continue
            s.cg = AND(cg0, g)
            try:
                out.append((g, fn(kk)))
            except VMRaise as e:
                vm.raise_under(s, TRUE, e.exc)
    finally:
        s.cg = cg0
    return mk_union(out)


def getitem(vm, s, c, k):
    t = type(c)
    if (t is VDict or t is VSet) and _needs_expansion(k):
        return lift_key(vm, s, k, lambda kk: getitem(vm, s, c, kk))
    if t is VDict:
        alts, missing = dict_get(vm, s, c, k)
        if not alts and c.default_factory is None:
            raise _vmraise(KeyError(k if is_concrete(k) else "<sym>"))
        if missing is not FALSE and AND(s.guard, missing) is not FALSE:
            if c.default_factory is not None:
                if vm.feasible(AND(s.guard, s.cg, missing)):
                    nv = _make_default(vm, s, c)
                    setitem(vm, s, c, k, nv, AND(s.guard, s.cg, missing))
                    alts = alts + [(missing, nv)]
            else:
                vm.raise_under(s, missing, KeyError(k if is_concrete(k) else "<sym>"))
        return mk_union(alts)
    if t is VList:
        if type(k) is slice:
            if not c.is_plain():
                raise Unsupported("slice of guarded list")
            return VList([v for _, v in c.slots][k], kind=c.kind, birth=s.guard)
        if type(k) is Sym:
            raise Unsupported("symbolic list index")
        conds = index_conds(vm, s, c, k)
        ok = OR(*[cd for cd, _ in conds])
        if ok is not TRUE:
            vm.raise_under(s, NOT(ok), IndexError("list index out of range"))
        return mk_union([(cd, c.slots[j][1]) for cd, j in conds])
    if t is tuple:
        if type(k) is Sym:
            raise Unsupported("symbolic tuple index")
        try:
            return c[k]
        except Exception as e:
            raise _vmraise(e)
    if isinstance(c, VObj) or t is Sym:
        if t is VInst:
            raise Unsupported(f"__getitem__ on {c!r}")
        raise Unsupported(f"subscript of {c!r}")
    if isinstance(c, type):  # generic alias  Foo[...]: the type parameters do not matter at run time
        return c
    if type(k) is Sym or isinstance(k, VObj):
        raise Unsupported(f"subscript {c!r}[{k!r}]")
    try:
        return vm.wrap_native(c[k])
    except Exception as e:
        raise _vmraise(e)


def _make_default(vm, s, d):
    df = d.default_factory
    if df is set:
        return VSet(birth=s.guard)
    if df is list:
        return VList(birth=s.guard)
    if df is dict:
        return VDict(birth=s.guard)
    if df is int:
        return 0
    raise Unsupported(f"default factory {df!r}")


def setitem(vm, s, c, k, v, g):
    """c[k] = v in the worlds g (g is absolute: already includes the state guard)"""
    t = type(c)
    if g is not TRUE and g is c.birth:
        g = TRUE
    if t is VDict:
        for gk, kk in key_alts(k):
            gg = AND(g, gk)
            if gg is FALSE:
                continue
            if has_sym(kk) or c.assoc:
                c.assoc.append((gg, kk, v))
                continue
            try:
                slot = c.slots.get(kk)
            except TypeError as e:
                raise _vmraise(e)
            if slot is None:
                c.slots[kk] = [gg, v]
            else:
                slot[1] = merge(gg, v, slot[1]) if slot[0] is not FALSE else v
                slot[0] = compact(OR(slot[0], gg))
        return
    if t is VList:
        for cd, j in index_conds(vm, s, c, k):
            gg = AND(g, cd)
            if gg is FALSE:
                continue
            c.slots[j][1] = merge(gg, v, c.slots[j][1])
        return
    raise Unsupported(f"item assignment on {c!r}")


def delitem(vm, s, c, k, g):
    """del c[k] in the worlds s.guard & g"""
    t = type(c)
    if t is VDict and _needs_expansion(k):
        for gk, kk in key_alts(k):
            if AND(s.guard, g, gk) is not FALSE:
                delitem(vm, s, c, kk, AND(g, gk))
        return
    if t is VDict:
        if c.assoc or has_sym(k):
            raise Unsupported("del on dict with symbolic keys")
        slot = c.slots.get(k)
        if slot is None:
            vm.raise_under(s, g, KeyError(k))
            return
        miss = AND(g, NOT(slot[0]))
        if miss is not FALSE:
            vm.raise_under(s, miss, KeyError(k))
        gg = wguard(s, c, g)
        slot[0] = compact(AND(slot[0], NOT(gg)))
        return
    if t is VList:
        conds = index_conds(vm, s, c, k)
        ok = OR(*[cd for cd, _ in conds])
        if ok is not TRUE:
            vm.raise_under(s, AND(g, NOT(ok)), IndexError("list assignment index out of range"))
        for cd, j in conds:
            gg = wguard(s, c, AND(g, cd))
            if gg is FALSE:
                continue
            c.slots[j][0] = compact(AND(c.slots[j][0], NOT(gg)))
        return
    raise Unsupported(f"del item on {c!r}")


def contains(vm, s, c, x):
    t = type(c)
    if (t is VDict or t is VSet) and _needs_expansion(x):
        return lift_key(vm, s, x, lambda kk: contains(vm, s, c, kk))
    if t is VSet or t is VDict:
        if t is VDict and c.assoc:
            alts, missing = dict_get(vm, s, c, x)
            return sym_bool(NOT(missing))
        if has_sym(x):
            slots = c.slots
            conds = []
            for ck, pv in slots.items():
                p = pv if t is VSet else pv[0]
                conds.append(AND(p, eq_values(vm, s, ck, x)))
            return sym_bool(OR(*conds))
        try:
            pv = c.slots.get(x)
        except TypeError as e:
            raise _vmraise(e)
        if pv is None:
            return False
        return sym_bool(pv if t is VSet else pv[0])
    if t is VList:
        return sym_bool(OR(*[AND(p, eq_values(vm, s, v, x)) for p, v in c.slots]))
    if t is tuple:
        return sym_bool(OR(*[eq_values(vm, s, v, x) for v in c]))
    if isinstance(c, VObj) or t is Sym:
        raise Unsupported(f"'in' on {c!r}")
    if type(x) is Sym or isinstance(x, VObj):
        if isinstance(c, (set, frozenset, dict, list)):
            try:
                return any(x is y for y in c)
            except Exception as e:
                raise _vmraise(e)
        raise Unsupported(f"{x!r} in {c!r}")
    try:
        return x in c
    except Exception as e:
        raise _vmraise(e)


# ------------------------------------------------------------------------------- mutation helpers


def list_append(vm, s, lst, v, g):
    if type(lst) is Union:
        for ga, x in lst.alts:
            list_append(vm, s, x, v, AND(g, ga))
        return
    if type(lst) is not VList:
        raise Unsupported(f"append to {lst!r}")
    if g is lst.birth:
        g = TRUE
    if g is not FALSE:
        lst.slots.append([g, v])


def iter_items(vm, s, it):
    """[(guard, value)] of an iterable (snapshot)"""
    t = type(it)
    if t is VList:
        return [(p, v) for p, v in it.slots if p is not FALSE]
    if t is VSet:
        return [(p, k) for k, p in it.slots.items() if p is not FALSE]
    if t is VDict:
        if it.assoc:
            raise Unsupported("iteration over dict with symbolic keys")
        return [(p, k) for k, (p, v) in it.slots.items() if p is not FALSE]
    if t is VIter:
        return list(it.seq[it.i:])
    if t is tuple:
        return [(TRUE, v) for v in it]
    if t is Union:
        per = [(g, iter_items(vm, s, x)) for g, x in it.alts if AND(s.guard, g) is not FALSE]
        n = max((len(items) for _, items in per), default=0)
        out = []
        for i in range(n):
            pres = []
            vals = []
            for g, items in per:
                if i < len(items):
                    p, v = items[i]
                    gp = AND(g, p)
                    if gp is not FALSE:
                        pres.append(gp)
                        vals.append((gp, v))
            if pres:
                out.append((OR(*pres), mk_union(vals)))
        return out
    if isinstance(it, VObj) or t is Sym:
        raise Unsupported(f"iteration over {it!r}")
    if it is None:
        raise _vmraise(TypeError("'NoneType' object is not iterable"))
    try:
        return [(TRUE, vm.wrap_native(v)) for v in it]
    except Exception as e:
        raise _vmraise(e)


def get_iter(vm, s, v):
    t = type(v)
    if t is VGen or t is VIter:
        return v
    if t is Union:
        v = vm.project(s, v)
        if type(v) is Union and any(type(x) is VGen for _, x in v.alts):
            return v
    return VIter(iter_items(vm, s, v), 0, v)


def list_extend(vm, s, lst, it, g):
    if type(it) is VGen:
        raise Unsupported("extend from generator (use prelude loop)")
    for p, v in iter_items(vm, s, it):
        list_append(vm, s, lst, v, AND(g, p))


def set_add(vm, s, st, x, g):
    if type(st) is Union:
        for ga, y in st.alts:
            set_add(vm, s, y, x, AND(g, ga))
        return
    if type(st) is not VSet:
        raise Unsupported(f"set add on {st!r}")
    for gk, k in key_alts(x):
        gg = AND(g, gk)
        if gg is FALSE:
            continue
        if gg is st.birth:
            gg = TRUE
        if has_sym(k):
            raise Unsupported("set element with symbolic scalar")
        try:
            st.slots[k] = compact(OR(st.slots.get(k, FALSE), gg))
        except TypeError as e:
            raise _vmraise(e)


def set_discard(vm, s, st, x, g, must_exist):
    for gk, k in key_alts(x):
        gg = AND(g, gk)
        if AND(s.guard, gg) is FALSE:
            continue
        if has_sym(k):
            raise Unsupported("set element with symbolic scalar")
        p = st.slots.get(k, FALSE)
        if must_exist:
            miss = AND(gg, NOT(p))
            if miss is not FALSE:
                vm.raise_under(s, miss, KeyError(k))
        if p is not FALSE:
            st.slots[k] = AND(p, NOT(wguard(s, st, gg)))


def set_update(vm, s, st, it, g):
    for p, v in iter_items(vm, s, it):
        set_add(vm, s, st, v, AND(g, p))


def dict_update(vm, s, d, other, g):
    if type(other) is VDict:
        for k, (p, v) in other.slots.items():
            setitem(vm, s, d, k, v, AND(g, p))
    elif isinstance(other, dict):
        for k, v in other.items():
            setitem(vm, s, d, k, vm.wrap_native(v), g)
    else:
        raise Unsupported(f"dict update from {other!r}")


def copy_set(vm, s, src, frozen=False):
    st = VSet(birth=s.guard, frozen=frozen)
    t = type(src)
    if t is VSet:
        st.slots = {k: p for k, p in src.slots.items() if p is not FALSE}
    else:
        for p, v in iter_items(vm, s, src):
            set_add(vm, s, st, v, p)
    return st


def copy_list(vm, s, src, kind="list"):
    lst = VList(kind=kind, birth=s.guard)
    lst.slots = [[p, v] for p, v in iter_items(vm, s, src)]
    return lst


# ------------------------------------------------------------------------------- binary operators on VM objects


def _as_set_slots(vm, s, x):
    if type(x) is VSet:
        return x.slots
    if isinstance(x, (set, frozenset)):
        return {k: TRUE for k in x}
    if type(x) is VDict and not x.assoc:
        return {k: p for k, (p, _) in x.slots.items()}
    raise Unsupported(f"set operand {x!r}")


def seq_eq(vm, s, a: VList, b: VList) -> B:
    """equality of two guarded sequences (as the lists they denote)"""
    na = sum(1 for p, _ in a.slots if p is not FALSE)
    nb = sum(1 for p, _ in b.slots if p is not FALSE)
    parts = []
    for k in range(max(na, nb)):
        ca = nth_present(a, k)
        cb = nth_present(b, k)
        ea = OR(*[c for c, _ in ca])
        eb = OR(*[c for c, _ in cb])
        parts.append(IFF(ea, eb))
        for c1, j1 in ca:
            for c2, j2 in cb:
                both = AND(c1, c2)
                if both is FALSE:
                    continue
                parts.append(OR(NOT(both), eq_values(vm, s, a.slots[j1][1], b.slots[j2][1])))
    return AND(*parts)


def binop(vm, s, opname, a, b):
    ta, tb = type(a), type(b)
    if opname in ("==", "!="):
        if ta is VSet and (tb is VSet or isinstance(b, (set, frozenset))) or (tb is VSet and isinstance(a, (set, frozenset))):
            sa, sb = _as_set_slots(vm, s, a), _as_set_slots(vm, s, b)
            e = AND(*[IFF(sa.get(k, FALSE), sb.get(k, FALSE)) for k in set(sa) | set(sb)])
            return sym_bool(e if opname == "==" else NOT(e))
        if ta is VList and tb is VList and not (a.is_plain() and b.is_plain()):
            e = seq_eq(vm, s, a, b)
            return sym_bool(e if opname == "==" else NOT(e))
        if ta is VList and tb is VList:
            if a.is_plain() and b.is_plain():
                if len(a.slots) != len(b.slots):
                    return opname == "!="
                e = AND(*[eq_values(vm, s, x[1], y[1]) for x, y in zip(a.slots, b.slots)])
                return sym_bool(e if opname == "==" else NOT(e))
            raise Unsupported("== on guarded lists")
        if ta is VDict and tb is VDict:
            raise Unsupported("== on dicts")
        same = a is b
        return same if opname == "==" else not same
    if opname in ("-", "&", "|", "^") and (ta is VSet or tb is VSet):
        sa, sb = _as_set_slots(vm, s, a), _as_set_slots(vm, s, b)
        r = VSet(birth=s.guard)
        for k in list(sa) + [k for k in sb if k not in sa]:
            pa, pb = sa.get(k, FALSE), sb.get(k, FALSE)
            if opname == "-":
                p = AND(pa, NOT(pb))
            elif opname == "&":
                p = AND(pa, pb)
            elif opname == "|":
                p = OR(pa, pb)
            else:
                p = OR(AND(pa, NOT(pb)), AND(NOT(pa), pb))
            if p is not FALSE:
                r.slots[k] = p
        return r
    if opname in ("<=", "<", ">=", ">") and (ta is VSet or tb is VSet):
        sa, sb = _as_set_slots(vm, s, a), _as_set_slots(vm, s, b)
        if opname in (">=", ">"):
            sa, sb = sb, sa
        sub = AND(*[OR(NOT(p), sb.get(k, FALSE)) for k, p in sa.items()])
        if opname in ("<", ">"):
            eq = AND(*[IFF(sa.get(k, FALSE), sb.get(k, FALSE)) for k in set(sa) | set(sb)])
            sub = AND(sub, NOT(eq))
        return sym_bool(sub)
    if opname == "+" and ta is VList and (tb is VList or isinstance(b, (list, tuple))):
        r = VList(kind=a.kind, birth=s.guard)
        r.slots = [[p, v] for p, v in a.slots] + [[p, v] for p, v in iter_items(vm, s, b)]
        return r
    if opname == "*" and ta is VList and type(b) is int and a.is_plain():
        return VList([v for _, v in a.slots] * b, birth=s.guard)
    if opname == "|" and ta is VDict and tb is VDict:
        r = VDict(birth=s.guard)
        dict_update(vm, s, r, a, TRUE)
        dict_update(vm, s, r, b, TRUE)
        return r
    raise Unsupported(f"operator {opname} on {a!r}, {b!r}")


def inplace(vm, s, opname, a, b):
    ta = type(a)
    g = wguard(s, a)
    if ta is VSet:
        if opname == "|":
            set_update(vm, s, a, b, g)
            return a
        if opname == "-":
            for p, v in iter_items(vm, s, b):
                set_discard(vm, s, a, v, p, False)
            return a
        if opname == "&":
            sb = _as_set_slots(vm, s, b)
            for k, p in a.slots.items():
                a.slots[k] = AND(p, OR(NOT(g), sb.get(k, FALSE)))
            return a
    if ta is VList and opname == "+":
        list_extend(vm, s, a, b, g)
        return a
    r = binop(vm, s, opname, a, b)
    return r


# ------------------------------------------------------------------------------- methods


def model_getattr(vm, s, obj, name):
    h = vm.model_attrs.get((obj.kind, name))
    if h is not None:
        return h(vm, s, obj)
    return MISSING


def call_method(vm, s, obj, name, args, kwargs):
    t = type(obj)
    if t is VModel:
        h = vm.model_methods.get((obj.kind, name))
        if h is None:
            raise Unsupported(f"method {name} of model {obj.kind}")
        return h(vm, s, obj, args, kwargs)
    if t is VList:
        return _list_method(vm, s, obj, name, args, kwargs)
    if t is VDict:
        return _dict_method(vm, s, obj, name, args, kwargs)
    if t is VSet:
        return _set_method(vm, s, obj, name, args, kwargs)
    if t is VGen:
        from .vm import _Pending
        if name == "__next__":
            return _Pending(vm.resume_gen(s, obj, None, "next", ("raise", None, ("push",))))
        if name == "send":
            return _Pending(vm.resume_gen(s, obj, args[0], "next", ("raise", None, ("push",))))
        if name == "close":
            vm._gen_finish(obj, s.guard)
            return None
    if t is VIter:
        if name == "__next__":
            return iter_next(vm, s, obj, MISSING)
    raise Unsupported(f"method {name} of {obj!r}")


def iter_next(vm, s, it, default):
    raise Unsupported("next() on a VM iterator position (immutable iterators cannot be advanced in place)")


def _pop_at(vm, s, lst, conds):
    ok = OR(*[cd for cd, _ in conds])
    if ok is not TRUE:
        vm.raise_under(s, NOT(ok), IndexError("pop from empty list" if lst.kind == "list" else "pop from an empty deque"))
    val = mk_union([(cd, lst.slots[j][1]) for cd, j in conds])
    for cd, j in conds:
        gg = wguard(s, lst, cd)
        if gg is FALSE:
            continue
        lst.slots[j][0] = compact(AND(lst.slots[j][0], NOT(gg)))
    return val


def _list_method(vm, s, lst, name, args, kwargs):
    g = wguard(s, lst)
    if name == "append":
        list_append(vm, s, lst, args[0], g)
        return None
    if name == "extend":
        list_extend(vm, s, lst, args[0], g)
        return None
    if name == "popleft" or (name == "pop" and args and args[0] == 0):
        return _pop_at(vm, s, lst, nth_present(lst, 0))
    if name == "pop":
        if args:
            if type(args[0]) is not int:
                raise Unsupported("pop(symbolic index)")
            return _pop_at(vm, s, lst, index_conds(vm, s, lst, args[0]))
        return _pop_at(vm, s, lst, nth_present(lst, 0, reverse=True))
    if name == "appendleft":
        if g is not FALSE:
            lst.slots.insert(0, [g, args[0]])
        return None
    if name == "insert":
        if args[0] == 0:
            if g is not FALSE:
                lst.slots.insert(0, [g, args[1]])
            return None
        raise Unsupported("list.insert at non-zero index")
    if name == "clear":
        for sl in lst.slots:
            sl[0] = compact(AND(sl[0], NOT(g)))
        if g is TRUE:
            lst.slots = []
        return None
    if name == "copy" or name == "__copy__":
        return copy_list(vm, s, lst, lst.kind)
    if name == "remove":
        x = args[0]
        remaining = TRUE
        for sl in lst.slots:
            m = AND(remaining, sl[0], eq_values(vm, s, sl[1], x))
            if m is FALSE:
                continue
            remaining = AND(remaining, NOT(m))
            sl[0] = compact(AND(sl[0], NOT(wguard(s, lst, m))))
        if remaining is not FALSE:
            vm.raise_under(s, remaining, ValueError("list.remove(x): x not in list"))
        return None
    if name == "index" and not lst.is_plain():
        # position = number of present slots before the first matching present slot
        x = args[0]
        remaining = TRUE
        alts = []
        before = []
        for j, sl in enumerate(lst.slots):
            m = AND(remaining, sl[0], eq_values(vm, s, sl[1], x))
            if m is not FALSE:
                alts.append((m, LenSym(0, list(before)) if before else 0))
                remaining = AND(remaining, NOT(m))
            if sl[0] is not FALSE:
                before.append(sl[0])
        if remaining is not FALSE:
            vm.raise_under(s, remaining, ValueError("x not in list"))
        return mk_union(alts)
    if name == "index":
        x = args[0]
        remaining = TRUE
        alts = []
        for j, sl in enumerate(lst.slots):
            m = AND(remaining, eq_values(vm, s, sl[1], x))
            if m is not FALSE:
                alts.append((m, j))
                remaining = AND(remaining, NOT(m))
        if remaining is not FALSE:
            vm.raise_under(s, remaining, ValueError("x not in list"))
        return mk_union(alts)
    if name == "count":
        x = args[0]
        conds = [AND(sl[0], eq_values(vm, s, sl[1], x)) for sl in lst.slots]
        conds = [c for c in conds if c is not FALSE]
        if all(c is TRUE for c in conds):
            return len(conds)
        n_true = sum(1 for c in conds if c is TRUE)
        rest = [c for c in conds if c is not TRUE]
        return LenSym(n_true, rest)
    if name == "__len__":
        return length(vm, s, lst)
    if name == "sort" or name == "reverse":
        if lst.is_plain() and all(is_concrete(v) for _, v in lst.slots):
            vals = [v for _, v in lst.slots]
            try:
                if name == "sort":
                    vals.sort(**{k: v for k, v in kwargs.items()})
                else:
                    vals.reverse()
            except Exception as e:
                raise _vmraise(e)
            lst.slots = [[TRUE, v] for v in vals]
            return None
        if name == "reverse":
            lst.slots.reverse()
            return None
        raise Unsupported("sort of symbolic list")
    raise Unsupported(f"list method {name}")


def _dict_method(vm, s, d, name, args, kwargs):
    g = wguard(s, d)
    if name == "get":
        k = args[0]
        default = args[1] if len(args) > 1 else None
        from .opcodes import lift1

        def one(kk):
            if _needs_expansion(kk):
                return lift_key(vm, s, kk, one)
            alts, missing = dict_get(vm, s, d, kk)
            return mk_union(alts + [(missing, default)])
        return lift1(vm, s, k, one)
    if name == "pop":
        k = args[0]
        res = []
        for gk, kk in key_alts(k):
            if AND(s.guard, gk) is FALSE:
                continue
            if d.assoc or has_sym(kk):
                raise Unsupported("pop on dict with symbolic keys")
            slot = d.slots.get(kk)
            p = slot[0] if slot else FALSE
            miss = AND(gk, NOT(p))
            if miss is not FALSE:
                if len(args) > 1:
                    res.append((miss, args[1]))
                else:
                    vm.raise_under(s, miss, KeyError(kk))
            if slot is not None and AND(gk, p) is not FALSE:
                res.append((AND(gk, p), slot[1]))
                slot[0] = compact(AND(slot[0], NOT(wguard(s, d, gk))))
        return mk_union(res)
    if name in ("keys", "__iter__"):
        return copy_list(vm, s, d)
    if name == "values":
        lst = VList(birth=s.guard)
        lst.slots = [[p, v] for k, (p, v) in d.slots.items() if p is not FALSE]
        return lst
    if name == "items":
        lst = VList(birth=s.guard)
        lst.slots = [[p, (k, v)] for k, (p, v) in d.slots.items() if p is not FALSE]
        return lst
    if name == "copy":
        r = VDict(kind=d.kind, birth=s.guard, default_factory=d.default_factory)
        r.slots = {k: [p, v] for k, (p, v) in d.slots.items() if p is not FALSE}
        r.assoc = list(d.assoc)
        return r
    if name == "clear":
        for sl in d.slots.values():
            sl[0] = compact(AND(sl[0], NOT(g)))
        d.assoc = [(AND(ga, NOT(g)), k, v) for ga, k, v in d.assoc]
        if g is TRUE:
            d.slots = {}
            d.assoc = []
        return None
    if name == "setdefault":
        k, dv = args[0], (args[1] if len(args) > 1 else None)
        if type(k) is Union or _needs_expansion(k):
            raise Unsupported("setdefault with merged key")
        alts, missing = dict_get(vm, s, d, k)
        if missing is not FALSE:
            setitem(vm, s, d, k, dv, AND(s.guard, s.cg, missing))
        return mk_union(alts + [(missing, dv)])
    if name == "update":
        if args:
            dict_update(vm, s, d, args[0], g)
        for k, v in kwargs.items():
            setitem(vm, s, d, k, v, g)
        return None
    if name == "__len__":
        return length(vm, s, d)
    if name == "__contains__":
        return contains(vm, s, d, args[0])
    raise Unsupported(f"dict method {name}")


def _set_method(vm, s, st, name, args, kwargs):
    g = wguard(s, st)
    if name == "add":
        set_add(vm, s, st, args[0], g)
        return None
    if name == "remove":
        set_discard(vm, s, st, args[0], TRUE, True)
        return None
    if name == "discard":
        set_discard(vm, s, st, args[0], TRUE, False)
        return None
    if name == "copy":
        return copy_set(vm, s, st)
    if name == "clear":
        for k, p in st.slots.items():
            st.slots[k] = AND(p, NOT(g))
        if g is TRUE:
            st.slots = {}
        return None
    if name == "update":
        for a in args:
            set_update(vm, s, st, a, g)
        return None
    if name in ("difference", "union", "intersection", "symmetric_difference"):
        opn = {"difference": "-", "union": "|", "intersection": "&", "symmetric_difference": "^"}[name]
        r = st
        for a in args:
            if type(a) is not VSet and not isinstance(a, (set, frozenset)):
                a = copy_set(vm, s, a)
            r = binop(vm, s, opn, r, a)
        return r
    if name == "issubset":
        return binop(vm, s, "<=", st, args[0] if type(args[0]) is VSet else copy_set(vm, s, args[0]))
    if name == "pop":
        conds = []
        remaining = TRUE
        for k, p in st.slots.items():
            m = AND(remaining, p)
            if m is not FALSE:
                conds.append((m, k))
                remaining = AND(remaining, NOT(m))
        if remaining is not FALSE:
            vm.raise_under(s, remaining, KeyError("pop from an empty set"))
        for m, k in conds:
            st.slots[k] = AND(st.slots[k], NOT(wguard(s, st, m)))
        return mk_union(conds)
    if name == "__len__":
        return length(vm, s, st)
    if name == "__contains__":
        return contains(vm, s, st, args[0])
    raise Unsupported(f"set method {name}")
