"""Engine B: bounded model checking of threads with a step-indexed symbolic scheduler (DESIGN.md section 4).

For every global step k one-hot Booleans hot[k][t] choose the thread that moves (or `idle`).  The chosen
thread executes one atomic block: the visible operation it is parked at plus everything up to its next
scheduling point.  Scheduling points: lock acquisition, resumption of a blocking operation (condition
wait, sleep, Event.wait, join), accesses to Event flags / thread liveness / fields found racy, and a new
thread's first block.  No solver call is made while the formula is built.
"""
from __future__ import annotations

import z3

from .bexp import B, TRUE, FALSE, AND, OR, NOT, IMPLIES, var, fresh, atom, to_z3, const
from .values import (Sym, Union, VObj, VInst, VList, VModel, Unsupported, merge, mk_union, alts_of, truth, sym_bool)
from .vm import VM, State, Park, merge_frames, vmerge, park_key
from .prims import owner_is, owner_none, wset

INF = None


_DEBUG = bool(__import__("os").environ.get("VF_CONC_DEBUG"))


class Sched:
    def __init__(self, vm, K, racy=()):
        self.vm = vm
        self.K = K
        self.k = 0
        self.threads = {}  # tid -> list of located states
        self.names = {}
        self.thread_obj = {}
        self.hot = []
        self.now_vars = [z3.Real(f"now_{k}") for k in range(K + 1)]
        vm.solver.add(self.now_vars[0] >= 0)
        for k in range(K):
            vm.solver.add(self.now_vars[k + 1] >= self.now_vars[k])
        self.racy = set(racy)
        self.deadlocks = []  # (k, B)
        self.enabled_at_end = FALSE
        self.ntid = 0
        self.idle_steps = []
        self.log = []
        self.waiters = {}
        self.fresh_threads = []
        self.logical = {}
        self.late = {}
        self.thread_objs_all = {}

    # ------------------------------------------------------------------ hooks called by prims
    def _resuming(self, s):
        if s.resume:
            s.resume = False
            return True
        return False

    def now(self, vm, s):
        return Sym("real", self.now_vars[self.k])

    def acquire(self, vm, s, lk, blocking, timeout):
        if blocking is False or (timeout is not None and timeout != -1):
            raise Unsupported("non-blocking / timed lock acquire under the scheduler")
        alone = False
        if len(self.threads) <= 1 and not s.resume:
            # no other thread has been started yet: taking a lock that is certainly available is not a scheduling point
            from .prims import owner_none, owner_is
            from .bexp import OR as _OR
            ok = _OR(owner_none(lk), owner_is(lk, s.tid)) if lk.f["reentrant"] else owner_none(lk)
            alone = ok is TRUE
        if not alone and not self._resuming(s):
            raise Park(("acquire", lk))
        if lk.f["reentrant"]:
            from .opcodes import lift2, binop_atomic
            wset(s, lk, "count", lift2(vm, s, lk.f["count"], 1, lambda a, b: binop_atomic(vm, s, "+", a, b)))
        wset(s, lk, "owner", s.tid)
        s.held = s.held + (lk.tag,)
        return True

    def released(self, vm, s, lk):
        if lk.tag in s.held:
            i = len(s.held) - 1 - s.held[::-1].index(lk.tag)
            s.held = s.held[:i] + s.held[i + 1:]

    def cond_wait(self, vm, s, c, timeout):
        f = s.frames[-1]
        lk = c.f["lock"]
        if f.phase == 0:
            # phase 0 (not a scheduling point): release the lock, join the waiter set
            # one waiter record per (thread, condition): a thread waits on a condition at most once at a time
            wkey = (s.tid, id(c))
            w = self.waiters.get(wkey)
            if w is None:
                w = VModel("waiter", tag=f"w{len(self.waiters)}", notified=False, tid=s.tid, wake=None)
                self.waiters[wkey] = w
            wset(s, w, "notified", False)
            if timeout is not None:
                from .opcodes import lift2, binop_atomic
                wset(s, w, "wake", lift2(vm, s, self.now(vm, s), timeout, lambda a, b: binop_atomic(vm, s, "+", a, b)))
            else:
                wset(s, w, "wake", INF)
            from . import containers
            containers.list_append(vm, s, c.f["waiters"], w, AND(s.guard, s.cg))
            if lk.f["reentrant"]:
                wset(s, lk, "saved_count", lk.f["count"])
                wset(s, lk, "count", 0)
            wset(s, lk, "owner", None)
            self.released(vm, s, lk)
            f.phase = 1
            raise Park(("cond_resume", c, w))
        # phase 1: resume (enabled: notified or timed out, and lock free)
        if not self._resuming(s):
            raise Park(s.park)
        w = s.park[2]
        f.phase = 0
        wset(s, lk, "owner", s.tid)
        if lk.f["reentrant"]:
            wset(s, lk, "count", lk.f.get("saved_count", 1))
        s.held = s.held + (lk.tag,)
        notified = truth(w.f["notified"])
        # a waiter that timed out removes itself
        wl = c.f["waiters"]
        for sl in wl.slots:
            if sl[1] is w:
                sl[0] = AND(sl[0], NOT(AND(s.guard, s.cg)))
        return sym_bool(notified)

    def cond_notify(self, vm, s, c, n):
        wl = c.f["waiters"]
        g = AND(s.guard, s.cg)
        if n is None:
            for sl in wl.slots:
                if sl[0] is FALSE:
                    continue
                hit = AND(g, sl[0])
                sl[1].set("notified", True, hit)
                sl[0] = AND(sl[0], NOT(g))
            return None
        if n != 1:
            raise Unsupported("notify(n>1)")
        remaining = TRUE
        for sl in wl.slots:
            if sl[0] is FALSE:
                continue
            first = AND(remaining, sl[0])
            remaining = AND(remaining, NOT(sl[0]))
            hit = AND(g, first)
            if hit is FALSE:
                continue
            sl[1].set("notified", True, hit)
            sl[0] = AND(sl[0], NOT(hit))
        return None

    def visible(self, vm, s, what):
        """an access that does not commute with other threads' actions: a scheduling point before it"""
        if len(self.threads) <= 1 and not s.resume:
            return  # no other thread exists yet
        if not self._resuming(s):
            raise Park(("visible",) + tuple(what))

    def event_wait(self, vm, s, e, timeout):
        f = s.frames[-1]
        if f.phase == 0:
            if timeout is not None:
                from .opcodes import lift2, binop_atomic
                wake = lift2(vm, s, self.now(vm, s), timeout, lambda a, b: binop_atomic(vm, s, "+", a, b))
            else:
                wake = INF
            f.phase = 1
            raise Park(("event_wait", e, wake))
        if not self._resuming(s):
            raise Park(s.park)
        f.phase = 0
        return sym_bool(truth(e.f["flag"]))

    def sleep(self, vm, s, d):
        f = s.frames[-1]
        if f.phase == 0:
            from .opcodes import lift2, binop_atomic
            wake = lift2(vm, s, self.now(vm, s), d, lambda a, b: binop_atomic(vm, s, "+", a, b))
            f.phase = 1
            raise Park(("sleep", wake))
        if not self._resuming(s):
            raise Park(s.park)
        f.phase = 0
        return None

    def thread_start(self, vm, s, th):
        # logical identity of a thread: (who started it, the how-manyth thread that one started).  The same start
        # reached at different steps / on different paths is the same scheduler thread (its states carry disjoint
        # guards and each holds its own thread object).
        lk = (s.tid, s.nst)
        s.nst += 1
        tid = self.logical.get(lk)
        again = tid is not None
        if not again:
            self.ntid += 1
            tid = self.ntid
            self.logical[lk] = tid
        g = AND(s.guard, s.cg)
        wset(s, th, "_vt_started", True)
        wset(s, th, "_vt_tid", tid)
        run = None
        from .opcodes import load_attr_value
        run = load_attr_value(vm, s, th, "run")
        fr = vm.make_frame(vm.vfunc_of(_thread_main), [run], {}, ("push",))
        st = State(g, [fr], tid)
        st.status = "parked"
        st.park = ("begin",)
        if again:
            self.late.setdefault(tid, []).append(st)     # joins the thread's states when the current step is complete
            self.thread_objs_all[tid].append(th)
        else:
            self.threads[tid] = [st]
            self.thread_obj[tid] = th
            self.thread_objs_all[tid] = [th]
            vm.thread_objs[tid] = th
            self.names[tid] = str(th.get("name"))
        if tid not in self.fresh_threads:
            self.fresh_threads.append(tid)
        return None

    def _run_prefixes(self):
        """a new thread's code up to its first scheduling point touches nothing another thread can see change
        (it reads its arguments): it is executed right away instead of costing a scheduled step"""
        vm = self.vm
        for tid, sts in self.late.items():
            self.threads[tid].extend(sts)
        self.late = {}
        while self.fresh_threads:
            tid = self.fresh_threads.pop(0)
            out = []
            for st in self.threads[tid]:
                if st.status == "parked" and st.park[0] == "begin":
                    r = st.copy()
                    r.status = "run"
                    r.resume = False
                    r.orig = ()
                    saved = (vm.tid, vm.cur if hasattr(vm, "cur") else None)
                    vm.tid = tid
                    res = vm.run_nested([r], st.guard)
                    vm.tid = saved[0]
                    for o in res:
                        if o.status in ("done", "raised"):
                            for th in self.thread_objs_all.get(tid, ()):
                                th.set("_vt_finished", True, o.guard)
                            o.frames = []
                        out.append(o)
                else:
                    out.append(st)
            self.threads[tid] = self._merge(out, self.k, tid)

    def join_all(self, vm, s, ths):
        if not self._resuming(s):
            raise Park(("join_all",) + tuple(ths))
        return None

    def thread_join(self, vm, s, th, timeout):
        if timeout is not None:
            raise Unsupported("join(timeout) under the scheduler")
        if not self._resuming(s):
            raise Park(("join", th))
        return None

    # ------------------------------------------------------------------ enabledness
    def _ge_now(self, wake, k):
        """now_k >= wake as B"""
        if wake is INF or wake is None:
            return FALSE
        from .values import num_z3
        nk = self.now_vars[k]
        alts = []
        for g, w in alts_of(wake):
            if w is None or w is INF:
                continue
            alts.append(AND(g, atom(z3.simplify(nk >= num_z3(w, True)))))
        return OR(*alts)

    def enabled(self, s, k):
        info = s.park
        kind = info[0]
        if kind in ("begin", "visible"):
            return TRUE
        if kind == "forever":
            return FALSE
        if kind == "acquire":
            lk = info[1]
            if lk.f["reentrant"]:
                return OR(owner_none(lk), owner_is(lk, s.tid))
            return owner_none(lk)
        if kind == "cond_resume":
            c, w = info[1], info[2]
            lk = c.f["lock"]
            ready = OR(truth(w.f["notified"]), self._ge_now(w.f["wake"], k))
            return AND(ready, owner_none(lk))
        if kind == "event_wait":
            e, wake = info[1], info[2]
            return OR(truth(e.f["flag"]), self._ge_now(wake, k))
        if kind == "sleep":
            return self._ge_now(info[1], k)
        if kind == "join":
            return truth(info[1].get("_vt_finished"))
        if kind == "join_all":
            return AND(*[truth(th.get("_vt_finished")) for th in info[1:]])
        raise Unsupported(f"enabledness of {kind}")

    def timed(self, s):
        info = s.park
        kind = info[0]
        if kind == "cond_resume":
            wk = info[2].f.get("wake")
            return OR(*[g for g, x in alts_of(wk) if x is not None])
        if kind == "event_wait":
            return const(info[2] is not INF)
        if kind == "sleep":
            return TRUE
        return FALSE

    # ------------------------------------------------------------------ the BMC loop
    def run(self, main_state):
        vm = self.vm
        # the main thread's first block (set-up up to its first scheduling point) is not a scheduled step
        self.names[0] = "main"
        self.threads[0] = []
        main_state.status = "run"
        vm.tid = 0
        self.threads[0] = self._merge(vm.run([main_state], root_guard=TRUE), -1, 0)
        self._run_prefixes()
        for k in range(self.K):
            self.k = k
            tids = sorted(self.threads)
            grp = ("hot", k)
            forced = getattr(vm, "forced", None)
            if forced is not None and f"sched.{k:02d}" in forced:
                # replay mode: the schedule and the clock are given
                chosen = forced[f"sched.{k:02d}"]
                hot = {t: (TRUE if t == chosen else FALSE) for t in tids}
                idle = TRUE if chosen == -1 or chosen not in tids else FALSE
                from fractions import Fraction
                self.now_vars[k] = z3.RealVal(str(Fraction(str(forced.get(f"now.{k:02d}", "0")))))
                if k + 1 < len(self.now_vars) and f"now.{k + 1:02d}" in forced:
                    self.now_vars[k + 1] = z3.RealVal(str(Fraction(str(forced[f"now.{k + 1:02d}"]))))
            else:
                hot = {t: var(f"hot_{k}_{t}", grp=grp) for t in tids}
                idle = var(f"hot_{k}_idle", grp=grp)
            self.hot.append((hot, idle))
            if not (forced is not None and f"sched.{k:02d}" in forced):
                vm.symvars[f"sched.{k:02d}"] = ("choice", [(h, t) for t, h in hot.items()] + [(idle, -1)])
                vm.symvars[f"now.{k:02d}"] = ("real", self.now_vars[k])
            zs = [to_z3(h) for h in hot.values()] + [to_z3(idle)]
            vm.solver.add(z3.Or(*zs))
            for i in range(len(zs)):
                for j in range(i + 1, len(zs)):
                    vm.solver.add(z3.Or(z3.Not(zs[i]), z3.Not(zs[j])))
            any_enabled = []
            any_unfinished = []
            any_timed = []
            plan = []
            for t in tids:
                for s in self.threads[t]:
                    if s.status != "parked":
                        continue
                    en = self.enabled(s, k)
                    any_enabled.append(AND(s.guard, en))
                    if s.park[0] != "forever":
                        any_unfinished.append(s.guard)
                    any_timed.append(AND(s.guard, self.timed(s)))
                    plan.append((t, s, en))
            none_enabled = NOT(OR(*any_enabled))
            vm.assume(IMPLIES(idle, none_enabled))
            # an idle step with timed waiters advances the clock until one of them can go (no stuttering)
            wakeups = [AND(s.guard, self.timed(s), self.enabled(s, k + 1)) for t, s, en in plan
                       if self.timed(s) is not FALSE]
            if wakeups:
                vm.assume(IMPLIES(AND(idle, OR(*any_timed)), OR(*wakeups)))
            dead = AND(OR(*any_unfinished), none_enabled, NOT(OR(*any_timed)))
            if dead is not FALSE:
                self.deadlocks.append((k, dead))
            # threads created during this step only start moving at the next step
            newloc = {t: [] for t in tids}
            for t in tids:
                unfinished = OR(*[s.guard for s in self.threads[t] if s.status == "parked" and s.park[0] != "forever"])
                vm.assume(IMPLIES(hot[t], unfinished))
                for s in self.threads[t]:
                    if s.status != "parked":
                        newloc[t].append(s)
            for t, s, en in plan:
                h = hot[t]
                run_g = AND(s.guard, h)
                stay_g = AND(s.guard, NOT(h))
                vm.assume(IMPLIES(run_g, en))
                if run_g is not FALSE:
                    r = s.copy(run_g)
                    r.status = "run"
                    r.resume = s.park[0] != "begin"
                    r.orig = ()
                    vm.tid = t
                    outs = vm.run([r], root_guard=run_g)
                    for o in outs:
                        if o.status in ("done", "raised"):
                            for th in self.thread_objs_all.get(t, ()):
                                th.set("_vt_finished", True, o.guard)
                            o.frames = []
                        newloc[t].append(o)
                if stay_g is not FALSE:
                    s.guard = stay_g
                    newloc[t].append(s)
            for t in list(self.threads):
                if t in newloc:
                    self.threads[t] = self._merge(newloc[t], k, t)
            if _DEBUG:
                import sys as _sys, time as _time
                print(f"[conc] step {k} t={_time.time():.0f} threads=" + ", ".join(
                    f"{t}:{len(v)}" for t, v in self.threads.items()) + f" instr={vm.ninstr if hasattr(vm, 'ninstr') else '?'}",
                    file=_sys.stderr, flush=True)
            self._run_prefixes()
        # horizon: nobody may still be enabled (else K is too small)
        k = self.K
        rem = []
        for t, lst in self.threads.items():
            for s in lst:
                if s.status == "parked":
                    rem.append(AND(s.guard, self.enabled(s, self.K - 1) if s.park[0] not in ("sleep",) else FALSE))
        self.enabled_at_end = OR(*rem)
        finals = []
        for t, lst in self.threads.items():
            finals.extend(lst)
        return finals

    def _merge(self, states, k, t):
        vm = self.vm
        bykey = {}
        order = []
        for s in states:
            if s.guard is FALSE:
                continue
            if s.guard.sz > 6:
                s.guard = vm.name_guard(s.guard)   # keep the guards used while merging frames small
            key = s.key() if s.status == "parked" else (s.status, repr(s.result) if s.status == "raised" else None)
            o = bykey.get(key)
            if o is None:
                bykey[key] = s
                order.append(key)
                continue
            g = s.guard
            if s.status == "parked":
                for fa, fb in zip(s.frames, o.frames):
                    merge_frames(g, fa, fb)
                s.cur_exc = vmerge(g, s.cur_exc, o.cur_exc)
                if s.held != o.held:
                    s.held = tuple(x for x in s.held if x in o.held)
                if o.nst > s.nst:
                    s.nst = o.nst
                if len(s.park) == len(o.park):
                    s.park = tuple(a if a is b else vmerge(g, a, b) for a, b in zip(s.park, o.park))
            s.guard = OR(g, o.guard)
            bykey[key] = s
        out = []
        for i, key in enumerate(order):
            s = bykey[key]
            if s.guard.sz > 6:
                s.guard = vm.name_guard(s.guard)
            out.append(s)
        return out


def _thread_main(run):
    run()
