#!/bin/sh
# Idempotent offline bootstrap of the overlay venv used by every check.
# /venv (the repository's own environment) is left untouched: the overlay sees its
# site-packages through a .pth file and adds z3-solver, crosshair-tool, cvc5, jsonschema
# from the offline wheelhouse.
set -e
V=/verif/.venv
if [ ! -x "$V/bin/python" ] || ! "$V/bin/python" -c "import z3, crosshair, jsonschema" 2>/dev/null; then
  rm -rf "$V"
  /venv/bin/python -m venv "$V"
  echo "import site; site.addsitedir('/venv/lib/python3.12/site-packages')" > "$V/lib/python3.12/site-packages/_overlay.pth"
  PIP_NO_INDEX=1 "$V/bin/pip" install -q --no-index --find-links /opt/veriftools/wheels z3-solver crosshair-tool cvc5 jsonschema >/dev/null
fi
"$V/bin/python" -c "import z3, crosshair, jsonschema; print('overlay ok', z3.get_version_string())"
