#!/usr/bin/env python3
"""Regenerates /verif/MANIFEST.json from the table below and validates it against the schema."""
import json
import os
import sys

HERE = os.path.dirname(os.path.dirname(os.path.abspath(__file__)))
ids = [json.loads(l)["id"] for l in open(os.path.join(HERE, "properties.jsonl"))]

SBVM = ("symbolic execution of the real CPython bytecode (state-merging VM, /verif/vf) + z3: every claim is an "
        "unsat verdict over all inputs within the stated bounds; sat models are replayed natively")

CHECKS = {
    "C09": dict(
        engine="sbvm",
        technique="SMT (z3) over a symbolic execution of DirectorySnapshot/DirectorySnapshotDiff bytecode; bounded "
                  "universe of paths; counterexamples replayed natively",
        level=("model_checking",
               "All pairs of trees over a universe of 6 (quick) / 8 (thorough) paths with symbolic presence, kind, "
               "inode, device, mtime, size are decided by the solver against the statement's set algebra; the "
               "bounded-exhaustive level is right because the laws are finite set algebra whose corner cases are "
               "combinatorial, not deep.", "DESIGN.md section 9, C09"),
        note="Trusted: the VM's opcode semantics (validated by native replay of witnesses and of every counterexample), "
             "z3 (cvc5 cross-check in the thorough tier), the tree assumptions listed in the evidence.",
    ),
}

CHECKS["C15"] = dict(
    engine="sbvm",
    technique="SMT (z3) over a symbolic execution of the handlers' dispatch and patterns.* bytecode; event class "
              "per session, paths/patterns/regexes/flags symbolic over pools; oracle = pathlib/re evaluated directly",
    level=("model_checking",
           "Every combination of event class, source/destination path, up to two include and two exclude patterns "
           "(or regexes) from the pools, case_sensitive and ignore_directories is decided by the solver against an "
           "independent reference evaluator; the rule is a Boolean function over finite pools, so bounded-exhaustive "
           "solver checking is the right level.", "DESIGN.md section 9, C15"),
    note="Trusted: VM opcode semantics (counterexamples and witnesses replayed natively), z3 (+cvc5 in thorough), "
         "pathlib.PurePath.match / re.match as the definition of 'matches'. Outside the pools nothing is claimed.",
)

CHECKS["C11"] = dict(
    engine="sbvm",
    technique="SMT (z3) over a symbolic execution of InotifyEmitter.get_event_mask_from_filter/queue_events and "
              "EventEmitter.queue_event; filter classes, native operation and kind symbolic; filtered vs unfiltered "
              "emitter compared on the notification the kernel would deliver under the derived mask",
    level=("model_checking",
           "Every filter of up to two (thorough: three) classes from the 13-class lattice x 12 native operations x "
           "file/dir x recursive x normal/full emitter is decided by the solver: the filtered emitter must queue "
           "exactly the accepted sub-sequence of what the unfiltered one queues, and the mask must keep the flags "
           "the recursive bookkeeping needs. The mask derivation is a finite case analysis, which is what bounded "
           "solver checking decides completely.", "DESIGN.md section 9, C11"),
    note="Trusted: inotify(7) delivery contract (event delivered iff its bit is in the mask; rename halves masked "
         "independently), one-notification histories, os.walk stub, VM semantics (native replay), z3.",
)

CHECKS["C13"] = dict(
    engine="sbvm",
    technique="SMT (z3) over a symbolic execution of BaseObserver's registry methods (and the interpreted stdlib "
              "queue.Queue) on symbolic API call sequences with a fault injected at a symbolic position; oracle = "
              "reference map kept by the harness",
    level=("model_checking",
           "All sequences of 3 (thorough: 4) calls drawn from schedule/unschedule/add/remove handler/unschedule_all/"
           "start/stop over 4 watches x 2 handlers, with an emitter-construction or emitter-start failure at any "
           "position, are decided by the solver against a reference map; after every call the reported emitters and, "
           "at the end, the recipients of a marker event per watch must agree with it.", "DESIGN.md section 9, C13"),
    note="Trusted: single-threaded threading models (Thread.start only records), scripted emitter class, VM semantics "
         "(native replay), z3. Longer sequences and concurrent callers are outside (C04-C06).",
)
CHECKS["C14"] = dict(
    engine="sbvm+crosshair",
    technique="SMT (z3) over a symbolic execution of generate_sub_moved_events/generate_sub_created_events on "
              "symbolic trees with colliding names (SBVM), plus CrossHair (z3-backed symbolic execution) of the same "
              "functions on symbolic strings",
    level=("model_checking",
           "SBVM: every tree over 9 nodes (names a, b, ab; presence and kind symbolic) x 10 source/destination "
           "spellings x str/bytes is decided: one event per descendant, right paths, right flavour, parents first, "
           "nothing else. CrossHair: arbitrary names and directory paths up to the stated lengths over {a,b,/} on a "
           "fixed two-level shape, 'Confirmed over all paths', with a reachability twin.", "DESIGN.md section 9, C14"),
    note="Trusted: os.walk replaced by a walk of the symbolic tree; CrossHair's string model; VM semantics (native "
         "replay). The third occurrence of the prefix rewrite (watch re-keying) is checked under C02.",
)

CHECKS["C10"] = dict(
    engine="sbvm",
    technique="SMT (z3) over a symbolic execution of PollingEmitter.queue_events + DirectorySnapshot/Diff on three "
              "symbolic successive trees with a stat/listdir fault at a symbolic path, kind (errno) and poll",
    level=("model_checking",
           "All triples of successive trees over the stated path universes, recursive and non-recursive, with one "
           "ENOENT/ENOTDIR/EACCES fault at any stat or listdir call of either poll, are decided by the solver: each "
           "poll queues exactly one event per entry of the specified difference of the trees as the walk contract "
           "observes them, deletions before creations per kind, nothing when equal, and a vanished root gives one "
           "DirDeletedEvent and a stopped emitter.", "DESIGN.md section 9, C10"),
    note="Trusted: virtual file system injected through the emitter's own stat/listdir parameters, sequential threading "
         "models (timed wait on the stop flag = timeout elapsed), VM semantics (native replay), z3.",
)

CHECKS["C04"] = dict(
    engine="sbvm-t+sbvm",
    technique="bounded model checking (z3): the real BaseObserver (schedule/add/remove/unschedule/unschedule_all/"
              "dispatch_events), EventEmitter.queue_event and the event queue (SkipRepeatsQueue over the interpreted "
              "stdlib Queue) executed symbolically; (A) sequentially with symbolic registrations, a symbolic event sequence "
              "and one symbolic re-entrant call per handler; (B) emitter threads, the dispatcher thread and an application "
              "thread under the step-indexed symbolic scheduler",
    level=("model_checking",
           "(A) For every registration of up to 3 handlers on up to 2 watches, every sequence of 2 (thorough: 3) distinct "
           "queued events and every choice of one re-entrant call per handler: a handler is registered for the event's watch "
           "at the moment of each callback, a handler registered when the dispatch starts and never removed gets the event "
           "exactly once, nobody gets it twice, per-handler order is queue order. (B) For every interleaving within K steps "
           "of one or two emitter threads (1-2 events), the dispatcher and an application thread that adds and removes a "
           "handler: exactly-once for handlers registered throughout, no cross-watch delivery, per-watch order, at most "
           "once for the transient handler, nothing after its removal returned, no deadlock. Coalescing of identical "
           "consecutive events is decided by the C16 check, not here.", "DESIGN.md section 9, C04"),
    note="Trusted: threading models, the scheduling-point reduction (lock acquisitions, wait resumptions, accesses to "
         "BaseObserver._handlers and the queue's _last_item, the start of every callback and queue_event), VM semantics, z3. "
         "Emitter threads of the observer are not run; schedule()/unschedule() from concurrent application threads are "
         "outside the bound (only add/remove handler).",
)

CHECKS["C05"] = dict(
    engine="sbvm-t+sbvm",
    technique="bounded model checking (z3): the real BaseObserver (schedule/add/remove/unschedule/unschedule_all/stop/"
              "dispatch_events), EventEmitter.queue_event and the event queue executed symbolically; (A) sequentially with "
              "symbolic registrations, a symbolic event sequence and one symbolic re-entrant API call per handler; (B) a "
              "dispatcher thread and an application thread under the step-indexed symbolic scheduler",
    level=("model_checking",
           "(A) For every registration of up to 3 handlers on up to 2 watches, every sequence of 2 (thorough: 3) queued "
           "events and every choice of one re-entrant call per handler (remove itself / another handler, unschedule this / "
           "the other watch, unschedule_all, stop): no handler is invoked for a watch after the call that removed it "
           "returned, the emitter of an unscheduled watch is told to stop, events are routed only to registered handlers, "
           "at most once, in queue order. (B) For every interleaving (scheduling points: lock acquisitions, wait "
           "resumptions, every access to BaseObserver._handlers, the start of a callback) of the dispatcher with one "
           "application-thread call of remove_handler_for_watch / unschedule / unschedule_all / stop within K steps: no "
           "callback of a removed handler starts after the call returned; no deadlock.", "DESIGN.md section 9, C05"),
    note="Trusted: threading models, the scheduling-point reduction, VM semantics (counterexamples are replayed: sequential "
         "ones natively, scheduled ones by forced re-execution), z3. Emitter threads are not run (their termination is "
         "C06's subject, which is not claimed).",
)

CHECKS["C06"] = dict(
    engine="sbvm-t",
    technique="bounded model checking (z3): the real BaseObserver/EventDispatcher/EventEmitter/BaseThread start, schedule, "
              "stop, join, run loops and the event queue executed symbolically by the application thread, the dispatcher "
              "thread and a scripted emitter thread under the step-indexed symbolic scheduler; deadlock (some thread "
              "unfinished, nobody enabled, no timed waiter) is an obligation at every step",
    level=("model_checking",
           "For every interleaving within K steps of the programs 'schedule; start; stop; join' with an idle emitter and with "
           "an emitter that queues one event (thorough adds a second stop(), stop() from inside a callback, and "
           "unschedule() from the application thread): no deadlock, stop()+join() returns, afterwards the observer thread "
           "and every emitter thread have exited. This is a small slice of C06: scripted emitters only, all schedule() "
           "calls before start(), one watch.", "DESIGN.md section 9, C04/C05/C06"),
    note="Trusted: threading models (no spurious wake-ups), the scheduling-point reduction, VM semantics (scheduled "
         "counterexamples are re-executed in the VM with the schedule forced, not on real threads), z3. NOT decided: the "
         "real inotify/polling emitters, stop() after the watched root disappeared, schedule() on a running observer, "
         "livelock through timed waits. A seeded lost wake-up in EventDispatcher.stop (seeded/C06-1) was not decided "
         "within 900 s by the quick tier (exit by timeout, not a pass).",
)

CHECKS["C08"] = dict(
    engine="sbvm-t+sbvm",
    technique="bounded model checking (z3): the real InotifyBuffer.run/_group_events and DelayedQueue.put/remove executed "
              "symbolically over a scripted Inotify; (A) the reader alone, sequentially, for every native sequence and "
              "every cutting into read batches; (B) reader and consumer threads under the symbolic scheduler and clock for "
              "two small fixed sequences",
    level=("model_checking",
           "(A) For every sequence of 4 (thorough: 5) native events over {FROM/TO of two cookies, two other events} obeying "
           "the kernel's cookie contract and every way of cutting it into read batches, with nothing consumed meanwhile: "
           "each native event is handed on exactly once, alone or as one half of one pair; both halves of a rename are "
           "always paired (same batch or across batches); pairs carry one cookie, FROM first; only an unmatched FROM is "
           "delayed; events handed on alone keep kernel order. (B) For all interleavings and clock readings within K "
           "steps of reader and consumer on one ordinary event (thorough: one rename in one batch): exactly-once delivery, "
           "no deadlock. The cross-batch pairing race with a sleeping consumer and the expiry boundary are NOT decided "
           "(outside the bound; see DESIGN.md 0.3).", "DESIGN.md section 9, C08"),
    note="Trusted: the scripted Inotify stand-in, threading/time models, VM semantics (sequential counterexamples are "
         "replayed natively against the real InotifyBuffer), z3. This is a partial decision of C08: the sequential pairing "
         "logic for all inputs, and thread interleavings only for the smallest programs.",
)

CHECKS["C17"] = dict(
    engine="sbvm-t",
    technique="bounded model checking (z3): the real DelayedQueue bytecode executed symbolically by producer/consumer/"
              "remover/closer threads under a step-indexed symbolic scheduler and a symbolic clock",
    level=("model_checking",
           "All interleavings (at the scheduling points of DESIGN.md 4.3) of a producer (2-3 puts with symbolic delay "
           "flags), a consumer, a remover with a symbolic target and/or a closer, for all clock readings, within K "
           "steps (an unwinding query shows K suffices): FIFO, never early, no loss, no duplicate over get/remove, "
           "removed head not returned, close() unblocks, no deadlock.", "DESIGN.md section 9, C17"),
    note="Trusted: the lock/condition/thread/clock models (no spurious wake-ups), the mover reduction (only lock "
         "acquisitions, wait/sleep resumptions, joins and accesses to the unprotected _closed flag are scheduling "
         "points), z3. Counterexamples are re-executed deterministically in the VM under the found schedule (native "
         "forced-schedule replay is not implemented).",
)

CHECKS["C16"] = dict(
    engine="sbvm-t+crosshair",
    technique="bounded model checking (z3) of the real SkipRepeatsQueue over the interpreted stdlib queue.Queue with "
              "producer/consumer threads under a symbolic scheduler; CrossHair on sequential put/get sequences; SMT "
              "over the event equality/hash law",
    level=("model_checking",
           "All interleavings (scheduling points: mutex acquisition, wait resumption, every access to the unlocked "
           "_last_item, the start of every put) of the stated producer/consumer programs with symbolic item values: "
           "FIFO, accepted items delivered exactly once, a put() is dropped only if an equal item was the "
           "still-waiting tail during it, no deadlock. Sequential sequences up to the stated length against a "
           "reference model (CrossHair 'Confirmed over all paths'); equality/hash law over 13 classes x field pools.",
           "DESIGN.md section 9, C16"),
    note="Trusted: lock/condition/thread models, the mover reduction, ghost bookkeeping subclass, CrossHair, z3. "
         "Counterexamples of the concurrent part are re-executed in the VM under the found schedule.",
)

CHECKS["C18"] = dict(
    engine="sbvm-t",
    technique="bounded model checking (z3) of the real EventDebouncer (own thread, producer, stopper) under a symbolic "
              "scheduler and clock",
    level=("model_checking",
           "Only the debouncer third of the property is decided: for all interleavings and clock readings of the "
           "stated programs, every event handed over is delivered exactly once and in order once the interval has "
           "passed (a lost wake-up is a deadlock), nothing is delivered after stop() returned, and the thread exits. "
           "AutoRestartTrick and ShellCommandTrick (process table) are not covered.", "DESIGN.md section 9, C18"),
    note="Trusted: Condition/Event/Thread/clock models, mover reduction, z3; counterexamples re-executed in the VM. "
         "The auto-restart and shell-command tricks are outside this check.",
)

CHECKS["C12"] = dict(
    engine="sbvm-t+sbvm",
    technique="SMT (z3): fault position/errno in watch construction as solver variables over the real Inotify.__init__ "
              "(Engine A); bounded model checking of the reader thread against close() over a descriptor-table model "
              "(Engine B)",
    level=("model_checking",
           "A: inotify_init or any of the first three inotify_add_watch calls of a (non-)recursive watch on a "
           "three-directory tree fails with ENOSPC/EMFILE/ENOENT/EACCES: a raising constructor has closed everything it "
           "opened, a successful one followed by close() likewise, nothing twice. B: all interleavings (40 steps) of "
           "InotifyBuffer.run/Inotify.read_events with InotifyBuffer.close: no use of a closed descriptor, no double "
           "close, all three descriptors released and the reader finished when close() returns.",
           "DESIGN.md section 9, C12"),
    note="Trusted: the descriptor-table/inotify seam model (vf/kernelmodel.py), threading models, mover reduction "
         "(_closed/_is_reading accesses are scheduling points), z3. Process-level descriptor counting over many real "
         "cycles is outside.",
)

CHECKS["C01"] = dict(
    engine="sbvm",
    technique="SMT (z3) over a symbolic execution of the real inotify pipeline (Inotify.__init__/read_events, "
              "InotifyBuffer.run/_group_events, DelayedQueue, InotifyEmitter.queue_events, generate_sub_*_events) on "
              "symbolic operations over a file-system/kernel model",
    level=("model_checking", 'For every valid operation (kind and operands symbolic) on the initial tree, with recursive/non-recursive watches, str/bytes roots, normal/full emitters and one-event-per-read or one-read-per-burst batching, replaying the delivered created/deleted/moved events on the initial tree yields the final tree; histories of two operations only in directed form (first operation fixed).', "DESIGN.md section 9"),
    note='Trusted: the file-system + inotify kernel model vf/fsmodel.py (inotify(7) contract, not re-validated against the real kernel at run time), sequential threading models, the replay semantics of DESIGN.md 9.0, VM semantics (every counterexample is replayed natively against the real library code over the same model), z3. Quick tier: every single operation from the operand pools on a fixed initial tree; plus directed two-operation histories (first operation fixed - mkdir, or a directory moved out of the tree - second operation symbolic); thorough: more single-operation configurations and more directed histories (directory renamed, directory moved in). Fully symbolic two-operation histories did not finish building and are not claimed.',
)
CHECKS["C02"] = dict(
    engine="sbvm",
    technique="SMT (z3) over a symbolic execution of the real inotify pipeline (Inotify.__init__/read_events, "
              "InotifyBuffer.run/_group_events, DelayedQueue, InotifyEmitter.queue_events, generate_sub_*_events) on "
              "symbolic operations over a file-system/kernel model",
    level=("model_checking", "After every valid operation the library's watch map holds every directory that exists under the root under its current path, and a probe file created in a symbolically chosen existing directory is reported under its real path (non-recursive: deeper probes are never reported).", "DESIGN.md section 9"),
    note='Trusted: the file-system + inotify kernel model vf/fsmodel.py (inotify(7) contract, not re-validated against the real kernel at run time), sequential threading models, the replay semantics of DESIGN.md 9.0, VM semantics (every counterexample is replayed natively against the real library code over the same model), z3. Quick tier: every single operation from the operand pools on a fixed initial tree; plus directed two-operation histories (first operation fixed - mkdir, or a directory moved out of the tree - second operation symbolic); thorough: more single-operation configurations and more directed histories (directory renamed, directory moved in). Fully symbolic two-operation histories did not finish building and are not claimed.',
)
CHECKS["C03"] = dict(
    engine="sbvm",
    technique="SMT (z3) over a symbolic execution of the real inotify pipeline (Inotify.__init__/read_events, "
              "InotifyBuffer.run/_group_events, DelayedQueue, InotifyEmitter.queue_events, generate_sub_*_events) on "
              "symbolic operations over a file-system/kernel model",
    level=("model_checking", "Every single operation, settled, produces exactly the multiset of events of its contract (written independently from the statement's examples): nothing required missing, nothing outside the contract, for recursive/non-recursive watches and normal/full emitters. Histories of two operations only in directed form (first operation fixed); the open finding (phantom events after a directory was moved out) is reported as KNOWN-FINDING.", "DESIGN.md section 9"),
    note='Trusted: the file-system + inotify kernel model vf/fsmodel.py (inotify(7) contract, not re-validated against the real kernel at run time), sequential threading models, the replay semantics of DESIGN.md 9.0, VM semantics (every counterexample is replayed natively against the real library code over the same model), z3. Quick tier: every single operation from the operand pools on a fixed initial tree; plus directed two-operation histories (first operation fixed - mkdir, or a directory moved out of the tree - second operation symbolic); thorough: more single-operation configurations and more directed histories (directory renamed, directory moved in). Fully symbolic two-operation histories did not finish building and are not claimed.',
)
CHECKS["C07"] = dict(
    engine="sbvm",
    technique="SMT (z3) over a symbolic execution of the real inotify pipeline (Inotify.__init__/read_events, "
              "InotifyBuffer.run/_group_events, DelayedQueue, InotifyEmitter.queue_events, generate_sub_*_events) on "
              "symbolic operations over a file-system/kernel model",
    level=("model_checking", 'For every valid operation, including operations on entries outside the watched tree, no code of the pipeline raises, and a probe made afterwards in an existing directory is still reported; histories of two operations only in directed form (first operation fixed: a directory moved out; thorough adds a directory renamed or moved in). One session injects a transient failure (ENOENT / ENOTDIR / EACCES) into the first, second or third inotify_add_watch call made after start-up; one directed history (mkdir c; mkdir c/d; create c/d/f back to back, no pacing) does the same while a new directory tree is announced. Root deletion is not covered.', "DESIGN.md section 9"),
    note='Trusted: the file-system + inotify kernel model vf/fsmodel.py (inotify(7) contract, not re-validated against the real kernel at run time), sequential threading models, the replay semantics of DESIGN.md 9.0, VM semantics (every counterexample is replayed natively against the real library code over the same model), z3. Quick tier: every single operation from the operand pools on a fixed initial tree; plus directed two-operation histories (first operation fixed - mkdir, or a directory moved out of the tree - second operation symbolic); thorough: more single-operation configurations and more directed histories (directory renamed, directory moved in). Fully symbolic two-operation histories did not finish building and are not claimed.',
)
CHECKS["C19"] = dict(
    engine="sbvm",
    technique="SMT (z3) over a symbolic execution of the real inotify pipeline (Inotify.__init__/read_events, "
              "InotifyBuffer.run/_group_events, DelayedQueue, InotifyEmitter.queue_events, generate_sub_*_events) on "
              "symbolic operations over a file-system/kernel model",
    level=("model_checking", 'For roots given as str, str with trailing slash and bytes, and file names including an undecodable byte and a multi-byte UTF-8 name, every non-empty path of every delivered event (source, destination, synthetic, parent-directory) has the type of the watched path and names the real entry. Inotify observer only; the polling observer is not covered here. Registry part: two handlers scheduled on one observer with symbolic spellings of the directory (str, bytes, trailing slash, another directory) and symbolic recursive flags are one watch only if type, spelling and flags agree, and each handler receives paths of the type it gave.', "DESIGN.md section 9"),
    note='Trusted: the file-system + inotify kernel model vf/fsmodel.py (inotify(7) contract, not re-validated against the real kernel at run time), sequential threading models, the replay semantics of DESIGN.md 9.0, VM semantics (every counterexample is replayed natively against the real library code over the same model), z3. Quick tier: every single operation from the operand pools on a fixed initial tree; plus directed two-operation histories (first operation fixed - mkdir, or a directory moved out of the tree - second operation symbolic); thorough: more single-operation configurations and more directed histories (directory renamed, directory moved in). Fully symbolic two-operation histories did not finish building and are not claimed.',
)

NOT_YET = "check not built yet (work in progress; see DESIGN.md section 11 for the order)"
NA = {
    "C20": "The Windows and FSEvents emitters import platform libraries (ctypes.windll / _watchdog_fsevents) that cannot be "
           "loaded on this Linux image, and their decoders work on raw memory through ctypes (cast/addressof/string_at), "
           "which the symbolic VM cannot interpret and CrossHair realises; no symbolic encoding of that code was within "
           "reach.",
}


def main():
    checks = []
    for pid in ids:
        c = CHECKS.get(pid)
        if not c:
            continue
        checks.append({
            "property_id": pid,
            "quick_cmd": f"bin/vcheck {pid} --tier quick",
            "thorough_cmd": f"bin/vcheck {pid} --tier thorough",
            "evidence_file": f"/verif/evidence/{pid}.json",
            "replay_cmd_template": f"bin/vcheck {pid} --replay {{path}}",
            "engine": c["engine"],
            "level_claimed": {"category": c["level"][0], "text": c["level"][1], "design_ref": c["level"][2]},
            "level_note": c["note"],
            "technique": c["technique"],
        })
    m = {
        "version": 1,
        "setup_cmd": "sh /verif/setup.sh",
        "hooks": {
            "guard": "WATCHDOG_VERIF",
            "enable": "no source hooks are needed: environment stubs are injected by rebinding module attributes "
                      "inside the symbolic VM and by mock patching in native replay",
            "baseline_off_cmd": "cd /repo && /venv/bin/python -m pytest -ra -q -p no:cacheprovider --timeout=900 "
                                "--continue-on-collection-errors",
            "source_commits": [],
            "add_only": True,
        },
        "engines": [
            {"name": "sbvm", "path": "/verif/vf", "serves_properties": sorted(k for k, c in CHECKS.items() if c["engine"].startswith("sbvm") and c["engine"] != "sbvm-t"),
             "kind_free_text": SBVM},
            {"name": "sbvm-t", "path": "/verif/vf/conc.py", "serves_properties": sorted(k for k, c in CHECKS.items() if c["engine"].startswith("sbvm-t")),
             "kind_free_text": "SBVM plus threads: step-indexed symbolic scheduler and clock (bounded model checking with z3)"},
        ],
        "checks": checks,
        "notes": "Solver-based checking of the real code; see DESIGN.md. Exit codes: 0 pass, 1 VIOLATION, 2 INCONCLUSIVE.",
        "not_applicable": [{"property_id": i, "reason": NA.get(i, NOT_YET)} for i in ids if i not in CHECKS],
    }
    path = os.path.join(HERE, "MANIFEST.json")
    json.dump(m, open(path, "w"), indent=1)
    try:
        import jsonschema
        jsonschema.validate(m, json.load(open("/root/.vp/MANIFEST.schema.json")))
        print("MANIFEST.json valid;", len(checks), "checks")
    except ImportError:
        print("written (jsonschema not available to validate)")


if __name__ == "__main__":
    main()
