#!/usr/bin/env python3
"""writes seeded/<id>/meta.json from confirm.json + the table of results below"""
import json, os, glob
HERE = os.path.dirname(os.path.dirname(os.path.abspath(__file__)))
# id: (property, needs, [(check, outcome)])
T = {
 "C01-1": ("C01", "two sibling directories where one name is a string prefix of the other, a rename of the shorter one, then activity in the longer one", [("C02 quick", "VIOLATION (watch map / probe)")]),
 "C04-1": ("C04", "two handlers on one watch, the first unschedules the watch inside its callback", [("C04 quick", "VIOLATION (handler called for a watch it is no longer registered for)"), ("C05 quick", "VIOLATION")]),
 "C04-2": ("C04", "dispatcher takes the item between the insert and the _last_item assignment, then the same event is queued again", [("C16 quick", "VIOLATION (a put is dropped although no equal item was the waiting tail)"), ("C04 quick", "not caught: the C04 sessions use distinct events; coalescing is decided by C16")]),
 "C05-1": ("C05", "two handlers on one watch, one removes the watch from inside its callback", [("C05 quick", "VIOLATION (sequential re-entrant session; replayed natively)")]),
 "C05-2": ("C05", "remove_handler_for_watch returns between the dispatcher's membership check and the dispatch call", [("C05 quick", "VIOLATION (thread session: callback starts after remove_handler_for_watch returned)")]),
 "C06-1": ("C06", "stopping thread preempted between enqueueing the sentinel and raising the stop flag", [("C06 quick", "VIOLATION (deadlock: dispatcher blocks in get() after consuming the sentinel; found by the per-step deadlock queries of the portfolio)")]),
 "C06-2": ("C06", "reader thread dead (unmount) while the emitter still waits, then stop/unschedule", [("-", "real inotify emitter not covered by C06")]),
 "C07-1": ("C07", "unschedule while an event of that watch is queued (KeyError in the observer thread)", [("C05 quick", "VIOLATION (uncaught KeyError in dispatch_events after a re-entrant unschedule)"), ("C07 quick", "not caught: C07 drives the inotify pipeline, not the observer API")]),
 "C07-2": ("C07", "new directory replaced by a regular file between the reader's walk and add_watch (ENOTDIR)", [("C07 quick", "VIOLATION (uncaught NotADirectoryError in the reader; session with a transient add_watch failure)")]),
 "C08-1": ("C08", "two renames in flight, consumer sleeping on the first when the reader removes it", [("C17 quick", "VIOLATION (same change as C17-1)"), ("C08 quick", "not caught: the thread sessions of C08 are too small")]),
 "C08-2": ("C08", "an unrelated event between the two halves of a rename inside one read batch", [("C08 quick", "VIOLATION (reader-alone session; replayed natively)")]),
 "C09-1": ("C09", "a name renamed away and re-occupied by a different inode with different mtime/size", [("C09 quick", "VIOLATION (modified law)")]),
 "C09-2": ("C09", "ignore_device=True together with an inode that changed path", [("C09 quick", "VIOLATION (moved law, ignore_device session)")]),
 "C10-1": ("C10", "an unreadable sub-directory that is not the last among its siblings, a later sibling with contents", [("C10 quick", "VIOLATION")]),
 "C10-2": ("C10", "a change after start() returned but before the emitter thread's first walk", [("C10 quick", "VIOLATION")]),
 "C11-1": ("C11", "filter with a Created class but no Moved class, non-recursive watch, rename inside the tree (adapted to the repaired mask function)", [("C11 quick", "VIOLATION")]),
 "C11-2": ("C11", "recursive watch, filter accepts the File class but not the Dir class, non-empty directory renamed or moved in", [("C11 quick", "VIOLATION")]),
 "C12-1": ("C12", "stop() lands between the reader's should_keep_running() and the lock at the top of read_events after a completed read", [("C12 quick", "VIOLATION (no descriptor is closed twice)")]),
 "C12-2": ("C12", "watched directory deleted, reader finished, then stop/unschedule", [("C12 quick", "not caught: root-deletion session could not be completed")]),
 "C13-1": ("C13", "emitter creation/start fault during schedule(), then a successful schedule of an equal watch", [("C13 quick", "VIOLATION")]),
 "C13-2": ("C13", "failed start() followed by unschedule_all()/stop()", [("C13 quick", "VIOLATION (uncaught KeyError)")]),
 "C14-1": ("C14", "a sub-directory path that repeats the destination path", [("C14 quick", "VIOLATION")]),
 "C15-1": ("C15", "patterns=[] (explicitly empty include list)", [("C15 quick", "VIOLATION")]),
 "C15-2": ("C15", "moved event with an included destination and an ignored source", [("C15 quick", "VIOLATION")]),
 "C16-1": ("C16", "producer offers an equal item right after the consumer left the critical section", [("C16 quick", "VIOLATION")]),
 "C16-2": ("C16", "two adjacent events that differ only in is_synthetic", [("C16 quick", "VIOLATION (equality law)")]),
 "C17-1": ("C17", "remove() takes the head while the consumer sleeps on it, second delayed element behind", [("C17 quick", "VIOLATION")]),
 "C17-2": ("C17", "get() pops the head between remove()'s snapshot and its delete", [("C17 quick", "VIOLATION (found by the portfolio of per-obligation queries)")]),
 "C18-1": ("C18", "stop() arrives while the debouncer thread is inside the restart callback", [("C18 quick", "VIOLATION (nothing is delivered after stop() has returned) - the AutoRestartTrick symptom itself is not covered")]),
 "C18-2": ("C18", "watcher thread in poll() when an event-triggered restart kills the child", [("C18 quick", "not caught: ProcessWatcher/AutoRestartTrick not covered")]),
 "C19-1": ("C19", "str root and a valid multi-byte UTF-8 file name; look at the parent-directory event", [("C19 quick", "VIOLATION")]),
 "C19-2": ("C19", "two schedule() calls for the same directory with str and bytes on one observer", [("C19 quick", "VIOLATION (two handlers scheduled with str and bytes spellings)")]),
 "C20-1": ("C20", "one-character name as last record, byte count not DWORD padded", [("-", "no check built for C20")]),
 "C20-2": ("C20", "a name re-used with the same action within one read", [("-", "no check built for C20")]),
}
for sid, (prop, needs, runs) in T.items():
    d = os.path.join(HERE, "seeded", sid)
    if not os.path.isdir(d):
        continue
    conf = json.load(open(os.path.join(d, "confirm.json"))) if os.path.exists(os.path.join(d, "confirm.json")) else {}
    meta = {"id": sid, "breaks_property": prop, "needs_to_manifest": needs,
            "confirmed": {"base_commit": conf.get("base_commit"), "unedited_test_suite_with_patch": conf.get("tests_summary"),
                          "demo_exit_with_patch": conf.get("demo_exit_patched"), "demo_exit_without_patch": conf.get("demo_exit_clean"),
                          "how": "bin/seedreconfirm: scratch worktree of /repo HEAD, git apply patch.diff, pytest (unedited suite), demo.py with and without the patch"},
            "checks_run": [{"check": c, "outcome": o} for c, o in runs],
            "origin": "written by a sub-agent that saw only the property text and its own scratch worktree"}
    json.dump(meta, open(os.path.join(d, "meta.json"), "w"), indent=1)
print("meta written for", len(T))
